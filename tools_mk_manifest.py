import json, importlib, sys, os
sys.path.insert(0, '/verif')
props = {}
for l in open('/verif/properties.jsonl'):
    p = json.loads(l); props[p['id']] = p
claimed = json.load(open('/verif/claims.json'))
checks = []
for pid, c in claimed.items():
    checks.append({
        "property_id": pid,
        "quick_cmd": f"./check {pid} --tier quick",
        "thorough_cmd": f"./check {pid} --tier thorough",
        "evidence_file": f"evidence/{pid}.json",
        "replay_cmd_template": f"./check {pid} --replay {{path}}",
        "engine": "qv",
        "level_claimed": {"category": c.get("category", "exploration"), "text": c["text"], "design_ref": f"DESIGN.md §5 {pid}"},
        "level_note": c["note"],
        "technique": c["technique"],
    })
na = [{"property_id": pid, "reason": "check not built yet in this revision (planned: runtime monitor per DESIGN.md §5)"} for pid in props if pid not in claimed]
m = {
 "version": 1,
 "setup_cmd": "/venv/bin/pip install --quiet --no-index --find-links /opt/veriftools/wheels --target /verif/.deps icontract && mkdir -p /verif/evidence /verif/replays",
 "hooks": {"guard": "QCOCIRCUITS_VERIF", "enable": "no source edits: monitors are monkey patches applied by /verif/qv after importing /repo/src (memo-shadow wrapper on RelationLink/MultiRelationLink.get_start_time, icontract invariants on CircuitGraphBranch, recording OpenQL platform); the guard variable is set by qv.env for the worker processes only",
           "baseline_off_cmd": "cd /repo && /venv/bin/python -m pytest -ra -q -p no:cacheprovider --timeout=900 --continue-on-collection-errors",
           "source_commits": [], "add_only": True},
 "engines": [{"name": "qv", "path": "qv/", "serves_properties": sorted(claimed), "kind_free_text": "runtime monitoring harness: build-program interpreter over the public API, reference model, memo-shadow monitor, contracts, history driver, sharded runner"}],
 "checks": checks,
 "not_applicable": na,
 "notes": "exit 0 held / exit 1 VIOLATION / exit 2 INCONCLUSIVE. Known findings: known_findings.json. Repairs of genuine defects are 'fix:' commits in /repo (listed as 'fixed' in known_findings.json).",
}
json.dump(m, open('/verif/MANIFEST.json','w'), indent=1)
print(len(checks), 'checks', len(na), 'n/a')
