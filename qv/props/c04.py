"""C04 — A (sub-)circuit's duration spans everything it contains."""
import random
from typing import Any, Dict, List

from qv import bp, gen, model as M, snap, memo_shadow
from qv.acc import Acc
from qv.props import common

HANDLES_MEMO = True
TOL = 1e-7

META = {
    "level": "exploration",
    "technique": "runtime monitoring: duration observer on every (sub-)circuit handle vs span of observed operation times and vs reference model",
    "rule": ("span-hostile programs (long operation with short JOINED_START/JOINED_END/FOLLOWED_BY successor, JOINED_END with longer duration, "
             "nested and followed) plus explicit/nested/zero classes and empty (sub-)circuits under random settings; distinct by structural hash; "
             "non-trivial = (by the model) the last-ending operation of some (sub-)circuit is not a relation leaf or the earliest-starting one is not a head"),
    "assumptions": ["reference model qv/model.py; span computed from the library's own reported operation times at the same step as well"],
    "floors": {
        "quick": {"late_heads_on_group_related_blocks": 1000, "rereads_after_temporary_override": 12000, "growth_first_add_rereads": 6000, "growth_of_empty_block_rereads": 500, "durations_compared": 40000, "growth_rereads": 3000, "deep_growth_rereads": 3000, "deep_growth_follower_checks": 2000, "forms_compared": 20000, "relations_to_former_blocks_checked": 300, "group_follower_checks": 2000, "registry_reassignments": 10000, "follower_checks": 5000, "empty_circuits": 1000, "label_non-leaf-last-end": 1000, "label_early-start": 3000, "label_nested-block-early-start": 500},
        "thorough": {"durations_compared": 500000, "follower_checks": 50000, "empty_circuits": 10000},
    },
}

CLASSES = ["span-hostile", "span-hostile", "span", "explicit", "nested_explicit", "nested", "zero", "empty", "long", "deepnest", "block_explicit", "block_explicit_je"]


def plan(tier: str, seed: int) -> List[Dict[str, Any]]:
    total = 24000 if tier == "quick" else 320000
    return common.split_shards("gen", total, 16, seed, 4, classes=CLASSES)


def gen_case(rng: random.Random, cls: str) -> Dict[str, Any]:
    if cls == "span-hostile":
        return gen.gen_span_hostile(rng)
    if cls == "empty":
        mode = rng.randrange(4)
        if mode == 0:
            circ = {"reps": 1, "steps": []}
        elif mode == 1:
            circ = {"reps": 1, "steps": [{"k": "Rx180", "q": [0]}, {"sub": {"reps": rng.choice([1, 2]), "steps": []}}, {"k": "Rx180", "q": [0]}]}
        elif mode == 2:
            circ = {"reps": 1, "steps": [{"sub": {"reps": 1, "steps": [{"sub": {"reps": 1, "steps": []}}]}}, {"k": "Reset", "q": [1]}]}
        else:
            # an empty block that an operation is explicitly related to (an empty block has no channels, nothing follows it implicitly)
            circ = {"reps": 1, "steps": [{"k": "Rx180", "q": [0]}, {"sub": {"reps": 1, "steps": []}},
                                         {"k": rng.choice(["Ry90", "Wait", "DispersiveMeasure"]), "q": [rng.choice([0, 1])], "rel": [rng.choice(["FOLLOWED_BY", "JOINED_START"]), 1]},
                                         {"k": "Rx90", "q": [1]}]}
        return {"class": "empty", "circuit": circ, "settings": gen.make_settings(rng)}
    if rng.random() < 0.05:
        # a repetition count of 0 is accepted input: until modifiers are applied the block is listed and scheduled once, and its duration
        # spans that content (seeded change C04-r13: "never executed, hence empty, hence duration 0")
        prog = gen.gen_program(rng, cls, reps=[0, 0, 1, 2])
        prog["has_zero_count"] = True
        return prog
    return gen.gen_program(rng, cls)


def check_program(prog: Dict[str, Any], acc: Acc, flags=None):
    flags = flags if flags is not None else {}
    ctx = bp.Ctx(prog.get("settings"))
    S = ctx.S
    case = {"program": prog}
    with ctx.global_override():
        built = bp.build(prog, ctx)
        top = built.top.circuit
        ops = top.operations
        raw = snap.raw_times(ops)
        index = {id(o): k for k, o in enumerate(ops)}
        # ---- the circuit itself
        reported = snap.raw_value(lambda: float(top.duration))
        shadow = snap.shadow_value(lambda: float(top.duration))
        model_span = M.span(built.top.mnodes, S)
        observed_span = (max(e for _, e in raw) - min(s for s, _ in raw)) if raw else 0.0
        top_node = M.MNode(is_block=True, sub=built.top.mnodes)
        label = common.duration_label(top_node, S)
        _compare(acc, case, "circuit", reported, shadow, model_span, observed_span, label, ())
        if not prog["circuit"]["steps"]:
            acc.count("empty_circuits")
        labels = {label}
        # ---- every nested block
        blocks = common.actual_blocks(built)
        for path, comp in blocks.items():
            mn = common.model_block(built, path)
            leaves = snap.walk_leaves(comp)
            pos = [index.get(id(x)) for x in leaves]
            if any(p is None for p in pos):
                continue
            obs = (max(raw[p][1] for p in pos) - min(raw[p][0] for p in pos)) if pos else 0.0
            rep = snap.raw_value(lambda: float(comp.duration))
            shd = snap.shadow_value(lambda: float(comp.duration))
            lab = common.duration_label(mn, S)
            labels.add(lab)
            if not leaves:
                acc.count("empty_circuits")
            _compare(acc, case, "block", rep, shd, M.duration(mn, S), obs, lab, path)
        for lab in labels:
            for part in lab.split("+"):
                acc.count("label_" + part)
        flags["nontrivial"] = any(("non-leaf-last-end" in l) or ("early-start" in l) for l in labels)
        # ---- consequence: followers of a block start after all of its content has ended
        for k, op in enumerate(ops):
            li = snap.link_info(op)
            if li["kind"] != "single" or li["ref"] is None or not snap.is_composite(li["ref"]) or li["type"] != "FOLLOWED_BY":
                continue
            comp = li["ref"]
            content = [index.get(id(x)) for x in snap.walk_leaves(comp)]
            heads = [index.get(id(x)) for x in _head_leaves(comp)]
            if not content or any(p is None for p in content) or any(p is None for p in heads):
                continue
            head_start = min(raw[p][0] for p in heads)
            if min(raw[p][0] for p in content) < head_start - TOL:
                acc.count("follower_skipped_early_content")
                continue
            acc.count("follower_checks")
            last = max(raw[p][1] for p in content)
            if raw[k][0] < last - TOL:
                acc.finding("follower-overlaps-block", "an operation FOLLOWED_BY a sub-circuit starts before all of the sub-circuit's operations have ended",
                            case, {"op": type(op).__name__, "start": raw[k][0], "content_end": last})
        # ---- another duration assignment for a while: the library's own temporary override is entered with other gate durations, duration
        #      and times are read under it, and read again after it ended (durations back to the outer settings): what is reported then
        #      must be the memo-free evaluation again (seeded changes C04-r14 / C07-r14: the override no longer cleared the memo on exit)
        if ops:
            from qce_circuit.structure.registry_duration import temporary_override_get_registry_at, GlobalRegistryKey
            other = {GlobalRegistryKey[k]: float(v) * f for (k, v), f in zip(sorted(S.glob.items()), (0.5, 2.0, 0.25, 3.0))}
            with temporary_override_get_registry_at(other):
                snap.raw_value(lambda: float(top.duration))
                snap.raw_times(ops)
            acc.count("rereads_after_temporary_override")
            rep_o = snap.raw_value(lambda: float(top.duration))
            shd_o = snap.shadow_value(lambda: float(top.duration))
            o_raw, o_sh = snap.raw_times(ops), snap.shadow_times(ops)
            if abs(rep_o - shd_o) > TOL or any(abs(a[0] - b[0]) > TOL or abs(a[1] - b[1]) > TOL for a, b in zip(o_raw, o_sh)):
                acc.finding("stale-memo/after-override", "duration / times reported after a temporary duration override ended differ from the memo-free evaluation",
                            case, {"duration_reported": rep_o, "duration_memo_free": shd_o})
            elif any(abs(a[0] - b[0]) > TOL or abs(a[1] - b[1]) > TOL for a, b in zip(o_raw, raw)):
                acc.finding("duration/changed-by-override", "times reported after a temporary duration override ended differ from those reported before it", case, None)
        # ---- registry durations (re-)assigned after the reads (some keys for the first time): duration and the times of the
        #      operations listed before, read again without a listing in between
        if prog.get("settings", {}).get("reg") is not None:
            for k2, v2 in (("ra", 3), ("rb", 0.5), ("rc", 7.25)):
                ctx.duration_registry.set_registry_at(k2, v2)
                S.reg[k2] = v2
            acc.count("registry_reassignments")
            rep_r = snap.raw_value(lambda: float(top.duration))
            shd_r = snap.shadow_value(lambda: float(top.duration))
            r_raw, r_sh = snap.raw_times(ops), snap.shadow_times(ops)
            if abs(rep_r - shd_r) > TOL or any(abs(a[0] - b[0]) > TOL or abs(a[1] - b[1]) > TOL for a, b in zip(r_raw, r_sh)):
                acc.finding("stale-memo/after-registry-change", "duration / times reported after registry durations were (re-)assigned differ from the memo-free evaluation",
                            case, {"duration_reported": rep_r, "duration_memo_free": shd_r})
            elif abs(rep_r - M.span(built.top.mnodes, S)) > TOL and "plain" == label:
                acc.finding("duration/after-registry-change", "duration after the registry durations were re-assigned is not the model span", case,
                            {"duration": rep_r, "model": M.span(built.top.mnodes, S)})
        # ---- growth after the reads: a long operation is added through a nested sub-circuit handle; durations and the times of
        #      the operations listed before are read again WITHOUT a listing in between, then once more with a fresh listing
        for h, child in zip(built.top.handles, built.top.children):
            if child is None:
                continue
            op = bp.make_op({"k": "Wait", "q": [0], "dur": 7.25}, ctx, [built.top])
            h.add(op)
            # read right after the FIRST addition (the block may have been empty until now and may be referenced by an explicit relation):
            # seeded change C03-r13 skipped the memo clear for the first operation added to an empty sub-circuit
            rep1 = snap.raw_value(lambda: float(top.duration))
            shd1 = snap.shadow_value(lambda: float(top.duration))
            one_raw, one_sh = snap.raw_times(ops), snap.shadow_times(ops)
            acc.count("growth_first_add_rereads")
            if not snap.walk_leaves(h)[1:]:
                acc.count("growth_of_empty_block_rereads")
            if abs(rep1 - shd1) > TOL or any(abs(a[0] - b[0]) > TOL or abs(a[1] - b[1]) > TOL for a, b in zip(one_raw, one_sh)):
                acc.finding("stale-memo/after-growth", "duration / times reported after a sub-circuit grew differ from the memo-free evaluation", case,
                            {"duration_reported": rep1, "duration_memo_free": shd1, "after": "first addition"})
                break
            # ... and one on a qubit the block did not use yet: a NEW head operation of an already listed block
            h.add(bp.make_op({"k": "Wait", "q": [17], "dur": 3}, ctx, [built.top]))
            acc.count("growth_rereads")
            rep2 = snap.raw_value(lambda: float(top.duration))
            shd2 = snap.shadow_value(lambda: float(top.duration))
            old_raw, old_sh = snap.raw_times(ops), snap.shadow_times(ops)
            if abs(rep2 - shd2) > TOL or any(abs(a[0] - b[0]) > TOL or abs(a[1] - b[1]) > TOL for a, b in zip(old_raw, old_sh)):
                acc.finding("stale-memo/after-growth", "duration / times reported after a sub-circuit grew differ from the memo-free evaluation", case,
                            {"duration_reported": rep2, "duration_memo_free": shd2})
                break
            ops3 = top.operations
            raw3 = snap.raw_times(ops3)
            span3 = (max(e for _, e in raw3) - min(s0 for s0, _ in raw3)) if raw3 else 0.0
            rep3 = snap.raw_value(lambda: float(top.duration))
            if abs(rep3 - rep2) > TOL:
                acc.finding("duration/changes-with-listing", "the duration reported after a sub-circuit grew changes when the operations are listed (nothing was added in between)", case,
                            {"before_listing": rep2, "after_listing": rep3})
            elif abs(rep3 - span3) > TOL:
                acc.finding("duration/span-after-growth", "duration of the circuit after a sub-circuit grew is not the span of the reported operation times", case,
                            {"duration": rep3, "span": span3})
            else:
                # ---- ... and growth TWO levels deep: a long operation on a qubit nothing uses yet is added to a block nested inside
                #      this sub-circuit; the duration is read before and after a listing, and an operation added to the circuit on that
                #      qubit afterwards follows the grown sub-circuit, i.e. starts when the late operation has ended (the mechanism of
                #      seeded change C03-r15: channels of an enclosing block not renewed when a block inside it grows)
                deep = [b for _, b in snap.walk_blocks(h)]
                if deep:
                    late = bp.make_op({"k": "Wait", "q": [18], "dur": 11}, ctx, [built.top])
                    deep[-1].add(late)
                    acc.count("deep_growth_rereads")
                    rep4 = snap.raw_value(lambda: float(top.duration))
                    shd4 = snap.shadow_value(lambda: float(top.duration))
                    ops5 = top.operations
                    raw5 = snap.raw_times(ops5)
                    span5 = max(e for _, e in raw5) - min(s0 for s0, _ in raw5)
                    rep5 = snap.raw_value(lambda: float(top.duration))
                    if abs(rep4 - shd4) > TOL:
                        acc.finding("stale-memo/after-growth", "duration reported after a block two levels deep grew differs from the memo-free evaluation", case,
                                    {"duration_reported": rep4, "duration_memo_free": shd4, "after": "deep growth"})
                    elif abs(rep5 - rep4) > TOL:
                        acc.finding("duration/changes-with-listing", "the duration reported after a block two levels deep grew changes when the operations are listed", case,
                                    {"before_listing": rep4, "after_listing": rep5})
                    elif abs(rep5 - span5) > TOL:
                        acc.finding("duration/span-after-growth", "duration of the circuit after a block two levels deep grew is not the span of the reported operation times", case,
                                    {"duration": rep5, "span": span5})
                    elif label == "plain":
                        follower = top.add(bp.make_op({"k": "Wait", "q": [18], "dur": 1}, ctx, [built.top]))
                        acc.count("deep_growth_follower_checks")
                        f_start = snap.shadow_value(lambda: float(follower.start_time))
                        l_end = snap.shadow_value(lambda: float(late.end_time))
                        if f_start < l_end - TOL:
                            acc.finding("follower/starts-inside-grown-block", "an operation added on a qubit that only a block two levels deep occupies starts before that block's content has ended",
                                        case, {"follower_start": f_start, "late_operation_end": l_end})
            break
        # ---- the same program unrolled, and flattened: duration == span of the reported times, and whatever follows a group of
        #      operations (repeated copies, flattened blocks) starts after ALL of them have ended
        for form in ("unrolled", "flattened"):
            built_f = bp.build(prog, bp.Ctx(prog.get("settings")))
            fresh = built_f.top.circuit
            # operations of the top level that are explicitly related to a whole sub-circuit (count 1): remembered with the block's
            # leaf objects, which flatten keeps
            related = []
            if form == "flattened":
                for h, child, step in zip(built_f.top.handles, built_f.top.children, prog["circuit"]["steps"]):
                    rel = step.get("rel")
                    if child is None and rel is not None and built_f.top.children[rel[1]] is not None:
                        block = built_f.top.handles[rel[1]]
                        if M.reps_of(built_f.top.mnodes[rel[1]], S) == 1:
                            related.append((h, rel[0], snap.walk_leaves(block), _head_leaves(block)))
            try:
                circ = fresh.apply_modifiers() if form == "unrolled" else fresh.flatten()
            except RecursionError:
                raise
            ops_f = circ.operations
            if not ops_f or len(ops_f) > 250:
                continue
            raw_f, sh_f = snap.raw_times(ops_f), snap.shadow_times(ops_f)
            acc.count("forms_compared")
            rep_f = snap.raw_value(lambda: float(circ.duration))
            span_f = max(e for _, e in sh_f) - min(s0 for s0, _ in sh_f)
            if any(abs(a[0] - b[0]) > TOL or abs(a[1] - b[1]) > TOL for a, b in zip(raw_f, sh_f)):
                acc.finding("stale-memo/" + form, f"times reported for the {form} circuit differ from the memo-free evaluation", case, None)
            elif abs(rep_f - span_f) > TOL:
                acc.finding("duration/span-" + form, f"duration of the {form} circuit is not the span of its operation times", case, {"duration": rep_f, "span": span_f})
            pos_f = {id(o): k for k, o in enumerate(ops_f)}
            # relations to a former sub-circuit still hold after flatten() (flatten removes the nesting only): FOLLOWED_BY starts after
            # ALL of the former block's operations ended, JOINED_START starts with its first operations, JOINED_END ends with its last
            for h, rtype, leaves, heads in related:
                idx = [pos_f.get(id(x)) for x in leaves]
                hidx = [pos_f.get(id(x)) for x in heads]
                if id(h) not in pos_f or not idx or any(p is None for p in idx) or not hidx or any(p is None for p in hidx):
                    continue
                head_start = min(sh_f[p][0] for p in hidx)
                if min(sh_f[p][0] for p in idx) < head_start - TOL:
                    continue            # content starting before the block's first operations: outside the consequence clause
                acc.count("relations_to_former_blocks_checked")
                hs, he = sh_f[pos_f[id(h)]]
                last = max(sh_f[p][1] for p in idx)
                ok = {"FOLLOWED_BY": hs >= last - TOL, "JOINED_START": abs(hs - head_start) <= TOL, "JOINED_END": abs(he - last) <= TOL}[rtype]
                if not ok:
                    acc.finding("flatten/relation-to-former-block", f"after flatten() an operation {rtype} a former sub-circuit no longer sits where that relation says", case,
                                {"type": rtype, "op": [hs, he], "block_first_start": head_start, "block_last_end": last})
                    break
            for k, op in enumerate(ops_f):
                li = snap.link_info(op)
                if li["kind"] != "multi" or li["type"] != "FOLLOWED_BY" or not li["refs"]:
                    continue
                members = [pos_f.get(id(r)) for r in li["refs"] if not snap.is_composite(r)]
                if len(members) != len(li["refs"]) or any(m is None for m in members):
                    continue
                acc.count("group_follower_checks")
                last = max(sh_f[m][1] for m in members)
                if sh_f[k][0] < last - TOL:
                    acc.finding("follower-overlaps-group", f"an operation that follows a group of operations ({form}) starts before all of them have ended", case,
                                {"start": sh_f[k][0], "group_end": last, "group_size": len(members)})
                    break
            # ---- growth of a sub-circuit that carries a GROUP relation (the second copy of an unrolled block that holds a sub-circuit): a
            #      new head operation on an unused qubit is added after the listing above; where it starts may not depend on whether the
            #      circuit is listed once more (seeded change C05-r15: handed group links were no longer recognised, the late head stayed
            #      unrelated until the next listing)
            if form == "unrolled":
                grouped = [c for c in circ.composite_operations if snap.link_info(c)["kind"] == "multi" and snap.walk_leaves(c)]
                if grouped:
                    late = bp.make_op({"k": "Wait", "q": [17], "dur": 3}, ctx, [built_f.top])
                    grouped[0].add(late)
                    acc.count("late_heads_on_group_related_blocks")
                    before_listing = snap.raw_value(lambda: (float(late.start_time), float(circ.duration)))
                    circ.operations
                    after_listing = snap.raw_value(lambda: (float(late.start_time), float(circ.duration)))
                    if abs(before_listing[0] - after_listing[0]) > TOL or abs(before_listing[1] - after_listing[1]) > TOL:
                        acc.finding("growth/group-related-block", "start of a head operation added late to a group-related sub-circuit (or the circuit's duration) changes when the "
                                    "operations are listed once more", case, {"before_listing": before_listing, "after_listing": after_listing})
    memo_shadow.drain()


def _head_leaves(comp) -> List[Any]:
    """Leaf operations that start with the block: first-layer nodes, recursively."""
    out = []
    layers = list(comp._circuit_graph.get_branch_iterator())
    first = [n for n in (layers[1] if len(layers) > 1 else []) if hasattr(n, "operation")]
    for n in first:
        if snap.is_composite(n.operation):
            out.extend(_head_leaves(n.operation))
        else:
            out.append(n.operation)
    return out


def _compare(acc: Acc, case, what: str, reported: float, shadow: float, model: float, observed: float, label: str, path):
    acc.count("durations_compared")
    detail = {"what": what, "path": list(path), "reported": reported, "memo_free": shadow, "model_span": model,
              "span_of_reported_times": observed, "label": label}
    if abs(reported - model) <= TOL and abs(reported - observed) <= TOL:
        return
    if abs(shadow - model) <= TOL and abs(reported - model) > TOL:
        acc.finding("stale-memo/duration", "reported duration differs from the memo-free evaluation and the model", case, detail)
    elif abs(reported - model) > TOL:
        acc.finding("duration/" + label, f"duration of a {what} is not the span from earliest start to latest end of its content ({label})", case, detail)
    else:
        acc.finding("duration/span-of-reported-times", "reported duration differs from the span of the reported operation times", case, detail)


def run_shard(shard: Dict[str, Any]) -> Acc:
    acc = Acc()
    rng = random.Random(shard["seed"])
    classes = shard["classes"]
    for i in range(shard["n"]):
        cls = classes[i % len(classes)]
        prog = gen_case(rng, cls)
        acc.hist("class", cls)
        flags: Dict[str, Any] = {}
        if cls == "block_explicit_je":
            # known finding (DESIGN.md 9.2): a sub-circuit added through add_operation with a JOINED_END relation hands that relation
            # to its head operations, each of which then ENDS with the reference instead of starting with the block.  The class
            # exists to keep the finding observable; everything it reports is keyed by that mechanism.
            sub = Acc()
            common.guarded(sub, check_program, prog, sub, flags, case={"program": prog})
            acc.merge_counts(sub.counters)
            acc.count("explicit_joined_end_block_programs")
            for f in sub.findings:
                acc.finding("explicit-block/JOINED_END", "a sub-circuit with an explicit JOINED_END relation does not end with its reference: its head operations do (" + f["sig"] + ")",
                            f["case"], f["detail"])
            acc.case(bp.phash(prog), True, sample=None)
            continue
        common.guarded(acc, check_program, prog, acc, flags, case={"program": prog})
        acc.case(bp.phash(prog), bool(flags.get("nontrivial")), sample=prog if i < 40 else None)
    return acc


def replay(shard: Dict[str, Any]) -> Acc:
    acc = Acc()
    check_program(shard["case"]["program"], acc)
    acc.case("replay", True, sample=shard["case"])
    return acc
