"""C16 — Simultaneous two-qubit gates are accepted iff they cannot collide in frequency."""
import itertools
import random
from typing import Any, Dict, List, Set, Tuple

from qv import bp
from qv.acc import Acc
from qv.props import common

META = {
    "level": "exploration",
    "technique": "runtime monitoring, exhaustive over the bounded domain: every subset of Surface-17 edges up to the bound is passed to get_mutually_allowed / get_requires_parking and compared with an independent 20-line frequency model; generated sequences are checked step by step",
    "rule": ("EXHAUSTIVE: all subsets of <= 3 (quick) / <= 4 (thorough) of the 24 Surface-17 edges (2,324 / 12,950) plus a seeded sample of larger subsets; parking "
             "for every idle qubit of every qubit-disjoint subset; sequence generator on random edge lists with subgroup sizes within the combination limit; a "
             "case is one edge subset (all distinct); non-trivial = >= 2 gates"),
    "assumptions": ["frequency levels LOW < MID < HIGH of the 17 qubits as documented for Surface-17 (hard-coded here and compared with the layout table)",
                    "parking is compared on qubit-disjoint subsets only (a qubit taking part in two gates is never an accepted step)"],
    "exhaustive": {"quick": True, "thorough": True},
    "floors": {
        "quick": {"subsets_checked": 2900, "subset_orders_checked": 6000, "parking_queries": 12000, "sequences_checked": 80, "sequence_generator_calls": 100, "non_divisible_generator_calls": 10, "sequence_step_parking_checks": 150, "accepted_subsets": 150, "rejected_subsets": 1500},
        "thorough": {"subsets_checked": 15000, "parking_queries": 30000, "sequences_checked": 800},
    },
}

LEVEL = {"LOW": 0, "MID": 1, "HIGH": 2}
SPEC_LEVELS = {**{f"D{i}": "LOW" for i in (1, 2, 3, 7, 8, 9)}, **{f"D{i}": "HIGH" for i in (4, 5, 6)},
               **{f"{t}{i}": "MID" for t in "XZ" for i in (1, 2, 3, 4)}}


def layer():
    from qce_circuit.connectivity.connectivity_surface_code import Surface17Layer
    return Surface17Layer()


def edge_names(conn) -> List[Tuple[str, str]]:
    return [tuple(q.id for q in e.qubit_ids) for e in conn.edge_ids]


def plan(tier: str, seed: int) -> List[Dict[str, Any]]:
    shards = [{"kind": "enum", "tier": tier, "part": i, "parts": 14, "hashseed": 0, "seed": common.seed_base(seed, 16)} for i in range(14)]
    nseq = 60 if tier == "quick" else 400
    shards.append({"kind": "sequences", "n": nseq, "seed": common.seed_base(seed, 161), "hashseed": 1})
    shards.append({"kind": "sequences", "n": nseq, "seed": common.seed_base(seed, 162), "hashseed": 2})
    return shards


# ---- independent model -----------------------------------------------------------------------------------

class Model:
    def __init__(self, edges: List[Tuple[str, str]]):
        self.edges = edges
        self.adj: Dict[str, Set[str]] = {}
        for a, b in edges:
            self.adj.setdefault(a, set()).add(b)
            self.adj.setdefault(b, set()).add(a)
        self.qubits = sorted(self.adj)

    @staticmethod
    def lvl(q: str) -> int:
        return LEVEL[SPEC_LEVELS[q]]

    def gate_level(self, g: Tuple[str, str]) -> int:
        return min(self.lvl(g[0]), self.lvl(g[1]))

    def higher(self, g: Tuple[str, str]) -> str:
        return g[0] if self.lvl(g[0]) > self.lvl(g[1]) else g[1]

    def disjoint(self, gates: List[Tuple[str, str]]) -> bool:
        qs = [q for g in gates for q in g]
        return len(qs) == len(set(qs))

    def accepted(self, gates: List[Tuple[str, str]]) -> bool:
        if not self.disjoint(gates):
            return False
        for g1, g2 in itertools.combinations(gates, 2):
            if self.gate_level(g1) != self.gate_level(g2):
                continue
            if any(b in self.adj[a] for a in g1 for b in g2):
                return False
        return True

    def requires_parking(self, q: str, gates: List[Tuple[str, str]]) -> bool:
        if any(q in g for g in gates):
            return False
        for g in gates:
            if self.higher(g) in self.adj[q] and self.lvl(q) == self.gate_level(g):
                return True
        return False


def enumerate_subsets(tier: str, seed: int, n_edges: int) -> List[Tuple[int, ...]]:
    top = 3 if tier == "quick" else 4
    out: List[Tuple[int, ...]] = []
    for k in range(1, top + 1):
        out.extend(itertools.combinations(range(n_edges), k))
    rng = random.Random(seed)
    extra = 600 if tier == "quick" else 3000
    for _ in range(extra):
        out.append(tuple(sorted(rng.sample(range(n_edges), top + 1 if rng.random() < 0.7 else top + 2))))
    return out


def check_subset(idx: Tuple[int, ...], conn, model: Model, lib_edges, acc: Acc):
    from qce_circuit.connectivity.intrf_connectivity_gate_sequence import Operation
    from qce_circuit.connectivity.mapping.gate_sequence_generator import GateSequenceGenerator
    from qce_circuit.connectivity.connectivity_surface_code import get_requires_parking
    gates = [model.edges[i] for i in idx]
    case = {"edges": [list(g) for g in gates]}
    acc.count("subsets_checked")
    want = model.accepted(gates)
    got = bool(GateSequenceGenerator.get_mutually_allowed([Operation.type_gate(lib_edges[i]) for i in idx], conn))
    acc.count("accepted_subsets" if want else "rejected_subsets")
    if len(idx) >= 3:
        # the verdict is about the SET of gates: the same gates listed in another order (deterministic rotation + reversal)
        for order in (idx[::-1], idx[1:] + idx[:1], (idx[1], idx[0]) + tuple(idx[2:])):
            acc.count("subset_orders_checked")
            if bool(GateSequenceGenerator.get_mutually_allowed([Operation.type_gate(lib_edges[i]) for i in order], conn)) != want:
                got = not want
                case = {"edges": [list(model.edges[i]) for i in order]}
                break
    if got != want:
        kind = "accepts-colliding" if got else "rejects-compatible"
        if not model.disjoint(gates):
            kind = "accepts-shared-qubit"
        acc.finding(f"acceptance/{kind}", "get_mutually_allowed disagrees with the frequency-collision rule", case, {"library": got, "model": want})
    if model.disjoint(gates):
        lib_gate_edges = [lib_edges[i] for i in idx]
        for q in conn.qubit_ids:
            if any(q.id in g for g in gates):
                continue
            acc.count("parking_queries")
            w = model.requires_parking(q.id, gates)
            g = bool(get_requires_parking(q, lib_gate_edges, conn))
            if g != w:
                acc.finding("parking/" + ("spurious" if g else "missing"), "get_requires_parking disagrees with the parking rule", case,
                            {"qubit": q.id, "library": g, "model": w})


def check_sequences(rng: random.Random, conn, model: Model, lib_edges, acc: Acc):
    from qce_circuit.connectivity.mapping.gate_sequence_generator import GateSequenceGenerator
    if rng.random() < 0.25:
        # edge count not a multiple of the step size (or smaller than it): whatever is emitted must still use every gate once
        n, k = rng.choice([(3, 2), (5, 2), (7, 2), (1, 2), (4, 3), (5, 3), (2, 3), (7, 3), (5, 4), (6, 4), (3, 4)])
        acc.count("non_divisible_generator_calls")
    else:
        n, k = rng.choice([(2, 1), (3, 1), (2, 2), (4, 2), (6, 2), (3, 3), (6, 3), (4, 4), (8, 4), (8, 2)])
    idx = rng.sample(range(len(lib_edges)), n)
    case = {"edges": [list(model.edges[i]) for i in idx], "subgroup_size": k}
    try:
        _check_generator_call(idx, k, case, conn, model, lib_edges, acc)
    except common.CaseBudgetExceeded:
        raise
    except Exception as exc:
        # a request inside the quantifier (edges of the layout, a subgroup size within the combination limit) for which the generator fails
        # emits nothing usable: the same requests succeed on every earlier call of the run (seeded change C16-r13: a mutable default
        # argument carried partitions over from earlier calls)
        acc.finding("sequence/generator-raises", f"the sequence generator raises {type(exc).__name__} for a request of layout edges", case, {"error": str(exc)[:200]})
    return case


def _check_generator_call(idx, k, case, conn, model: Model, lib_edges, acc: Acc):
    from qce_circuit.connectivity.mapping.gate_sequence_generator import GateSequenceGenerator
    gen = GateSequenceGenerator(included_edge_ids=[lib_edges[i] for i in idx], connectivity=conn)
    ident = gen.construct_allowed_gate_sequences(subgroup_size=k)
    requested = sorted(model.edges[i] for i in idx)
    expected_accepted = 0
    count = 0
    for seq in ident.construct_operation_sequences():
        count += 1
        acc.count("sequences_checked")
        steps = [[tuple(q.id for q in op.identifier.qubit_ids) for op in step] for step in seq.operations]
        used = sorted(tuple(g) for step in steps for g in step)
        norm = sorted(tuple(sorted(g)) for g in used)
        if norm != sorted(tuple(sorted(g)) for g in requested):
            acc.finding("sequence/not-a-partition", "an emitted gate sequence does not use each requested gate exactly once", case, {"steps": steps})
            break
        bad = [s for s in steps if not model.accepted([_orient(g, model) for g in s])]
        if bad:
            acc.finding("sequence/step-not-accepted", "an emitted gate sequence contains a step the frequency rule rejects", case, {"step": bad[0]})
            break
        if any(len(s) != k for s in steps):
            acc.finding("sequence/step-size", "an emitted gate sequence has a step of the wrong size", case, {"steps": steps})
            break
        if count <= 12:
            # parking reported per step of the emitted sequence (and carried into the layout built from it): exactly the idle
            # qubits the parking rule names for THAT step's gates
            reported = [sorted(op.identifier.id for op in ops) for ops in seq.get_required_parkings(conn)]
            layers = seq.to_generic_surface_code(conn)
            carried = [sorted(op.identifier.id for op in layers.get_gate_sequence_at_index(i).park_operations) for i in range(min(len(steps), layers.gate_sequence_count))]
            if len(reported) != len(steps) or len(carried) != len(steps):
                acc.finding("sequence/step-parking", "an emitted sequence does not report parking step by step (one report per step)", case,
                            {"steps": len(steps), "reports": len(reported), "layers": len(carried)})
                break
            for i, step in enumerate(steps):
                oriented = [_orient(g, model) for g in step]
                busy = {q for g in step for q in g}
                want_park = sorted(q for q in model.qubits if q not in busy and model.requires_parking(q, oriented))
                acc.count("sequence_step_parking_checks")
                if i >= len(reported) or reported[i] != want_park or carried[i] != want_park:
                    acc.finding("sequence/step-parking", "parking reported for a step of an emitted sequence is not exactly the set the parking rule names for that step", case,
                                {"step": step, "reported": reported[i] if i < len(reported) else None, "carried_into_layout": carried[i], "model": want_park})
                    break
    acc.count("sequence_generator_calls")
    acc.hist("sequences_per_call", min(count, 50) // 5 * 5)
    return case


def _orient(g: Tuple[str, str], model: Model) -> Tuple[str, str]:
    return g if g in model.edges else (g[1], g[0])


def run_shard(shard: Dict[str, Any]) -> Acc:
    acc = Acc()
    conn = layer()
    lib_edges = list(conn.edge_ids)
    model = Model(edge_names(conn))
    # layout table vs documented levels
    for q in conn.qubit_ids:
        got = conn.get_frequency_group_identifier(q).id.name
        if SPEC_LEVELS.get(q.id) != got:
            acc.finding("layout/frequency-table", "frequency level of a qubit in the layout table differs from the documented Surface-17 assignment", {"qubit": q.id},
                        {"table": got, "documented": SPEC_LEVELS.get(q.id)})
    if len(lib_edges) != 24 or len(conn.qubit_ids) != 17:
        acc.finding("layout/size", "Surface-17 layout does not have 17 qubits and 24 edges", {"qubits": len(conn.qubit_ids)}, {"edges": len(lib_edges)})
    if shard["kind"] == "enum":
        subsets = enumerate_subsets(shard["tier"], shard["seed"], len(lib_edges))
        for i, idx in enumerate(subsets):
            if i % shard["parts"] != shard["part"]:
                continue
            acc.case("-".join(map(str, idx)), len(idx) >= 2, sample={"edges": [list(model.edges[j]) for j in idx]})
            common.guarded(acc, check_subset, idx, conn, model, lib_edges, acc, case={"edges": [list(model.edges[j]) for j in idx]})
        return acc
    rng = random.Random(shard["seed"])
    for i in range(shard["n"]):
        case = check_sequences(rng, conn, model, lib_edges, acc)
        acc.case(bp.phash(case), True, sample=case)
    return acc


def check_program(case: Dict[str, Any], acc: Acc):
    conn = layer()
    lib_edges = list(conn.edge_ids)
    model = Model(edge_names(conn))
    names = [tuple(e) for e in case["edges"]]
    idx = tuple(model.edges.index(_orient(g, model)) for g in names)
    check_subset(idx, conn, model, lib_edges, acc)


def replay(shard: Dict[str, Any]) -> Acc:
    acc = Acc()
    check_program(shard["case"], acc)
    acc.case("replay", True, sample=shard["case"])
    return acc
