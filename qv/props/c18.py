"""C18 — Drawing shows the schedule and leaves the circuit alone."""
import random
from typing import Any, Dict, List, Optional, Tuple

from qv import bp, gen, model as M, snap, memo_shadow
from qv.acc import Acc
from qv.kinds import DEFAULT_GLOBAL
from qv.props import common, c05

HANDLES_MEMO = True
TOL = 1e-6

META = {
    "level": "exploration",
    "technique": "runtime monitoring: hooks on the drawer (captured VisualCircuitDescription, every TransformConstructor.identifier_to_pivot placement) compared with the reference model under the drawing's durations; circuit snapshot before/after plot_circuit",
    "rule": ("build programs over drawable operation kinds (as built and unrolled) x channel orders (permutations and prefixes of the occupied channels, plus an "
             "unknown channel) x label maps x compact / non-compact x a global duration override different from the drawing's own; Agg backend; distinct by "
             "(program, drawing options) hash; non-trivial = non-identity channel order and non-default global setting"),
    "assumptions": ["reference model gives the expected start of every operation under the drawing's durations (compact: the drawing's own registry, otherwise the "
                    "current global settings); two-qubit gates drawn side by side may be offset by at most 0.25 x duration^2 (documented artistic offset)"],
    "floors": {
        "quick": {"operations_with_draw_component": 15000, "drawings": 3800, "placements_checked": 20000, "rows_checked": 30000, "snapshots_compared": 3800, "unknown_channel_rejected": 300, "unknown_channel_zero_rejected": 40,
                  "compact_under_nondefault_global": 800, "label_maps_checked": 1000, "isolated_cphase_dots_checked": 300, "barrier_extents_checked": 400},
        "thorough": {"drawings": 38000, "placements_checked": 200000, "snapshots_compared": 38000, "unknown_channel_rejected": 3000},
    },
}

_HOOKS = {"installed": False, "description": None, "placements": []}


def install_hooks():
    if _HOOKS["installed"]:
        return
    import qce_circuit.visualization.visualize_circuit.display_circuit as dc
    from qce_circuit.visualization.visualize_circuit.draw_components.transform_constructor import TransformConstructor
    orig_plot = dc.plot_circuit_description

    def plot_circuit_description(description, **kwargs):
        _HOOKS["description"] = description
        _HOOKS["inside"] = _inside_snapshot(description)
        return orig_plot(description, **kwargs)

    dc.plot_circuit_description = plot_circuit_description
    orig_pivot = TransformConstructor.identifier_to_pivot

    def identifier_to_pivot(self, identifier, time_component):
        pivot = orig_pivot(self, identifier, time_component)
        _HOOKS["placements"].append((identifier.id, time_component, float(pivot.x), float(pivot.y), float(self.channel_spacing), list(self.channel_indices)))
        return pivot

    TransformConstructor.identifier_to_pivot = identifier_to_pivot
    # final artists of the two-qubit gates: every dot the drawer puts on the axes (the pivot hook sees positions before the
    # drawer's own side-by-side arrangement)
    from qce_circuit.visualization.visualize_circuit.draw_components.multi_pivot_components import DotComponent
    orig_dot = DotComponent.draw

    def dot_draw(self, axes):
        c = self.base_transform.center_pivot
        _HOOKS.setdefault("dots", []).append((float(c.x), float(c.y)))
        return orig_dot(self, axes)

    DotComponent.draw = dot_draw
    # final artist of a barrier: the vertical extent that is actually drawn, next to the per-qubit transforms it was built from
    from qce_circuit.visualization.visualize_circuit.draw_components.multi_pivot_components import BlockVerticalBarrier
    orig_barrier = BlockVerticalBarrier.draw

    def barrier_draw(self, axes):
        centers = [float(t.center_pivot.y) for t in self.multiple_transforms]
        _HOOKS.setdefault("barriers", []).append((float(self.top_pivot.y), float(self.bot_pivot.y), centers))
        return orig_barrier(self, axes)

    BlockVerticalBarrier.draw = barrier_draw
    # every per-operation draw-component factory: which operations get a draw component at all (the pivot hook above also fires for
    # operations that are only measured for the side-by-side arrangement and never drawn)
    import inspect
    import qce_circuit.visualization.visualize_circuit.draw_components.factory_draw_components as fdc
    for _, cls in inspect.getmembers(fdc, inspect.isclass):
        fn = cls.__dict__.get("construct")
        if fn is None or cls.__module__ != fdc.__name__:
            continue
        params = list(inspect.signature(fn).parameters)
        if params[:2] != ["self", "operation"]:
            continue

        def make(orig):
            def construct(self, operation, *a, **kw):
                _HOOKS.setdefault("constructed", []).append(operation)
                return orig(self, operation, *a, **kw)
            return construct

        cls.construct = make(fn)
    _HOOKS["installed"] = True


def _inside_snapshot(description) -> Dict[str, Any]:
    """Durations in force inside the drawer (observed through the public duration strategy of a probe operation)."""
    from qce_circuit.structure.circuit_operations import DispersiveMeasure, Rx180, VirtualPark, Reset
    from qce_circuit.structure.registry_duration import GlobalDurationStrategy, GlobalRegistryKey
    out = {}
    for key in ("READOUT", "MICROWAVE", "FLUX", "RESET"):
        out[key] = float(GlobalDurationStrategy(GlobalRegistryKey[key]).get_variable_duration(task=None))
    return out


def plan(tier: str, seed: int) -> List[Dict[str, Any]]:
    total = 4000 if tier == "quick" else 40000
    return common.split_shards("gen", total, 16, seed, 18, classes=["explicit", "nested", "allkinds", "implicit"])


def gen_crowded(rng: random.Random) -> Dict[str, Any]:
    """Directed shape: k = 2..4 controlled-phase gates on disjoint pairs, all starting together behind one barrier, drawn under a random
    (usually interleaving) channel order - the drawer arranges gates whose row ranges intersect side by side (seeded change C18-r12)."""
    k = rng.randint(2, 4)
    qs = list(range(2 * k))
    rng.shuffle(qs)
    steps: List[Dict[str, Any]] = [{"k": rng.choice(["Rx180", "Ry90", "Identity"]), "q": [q]} for q in rng.sample(qs, rng.randint(0, k))]
    steps.append({"k": "Barrier", "q": sorted(qs)})
    steps += [{"k": "CPhase", "q": [qs[2 * i], qs[2 * i + 1]]} for i in range(k)]
    order = sorted(qs)
    if rng.random() < 0.7:
        rng.shuffle(order)
    prog = {"class": "crowded", "circuit": {"reps": 1, "steps": steps}, "settings": gen.make_settings(rng) if rng.random() < 0.5 else {}}
    prog["drawing"] = {"order": order, "order_mode": "permutation", "labels": None, "compact": rng.random() < 0.6, "unroll": False}
    return prog


def gen_case(rng: random.Random, cls: str) -> Dict[str, Any]:
    if rng.random() < 0.06:
        return gen_crowded(rng)
    prog = gen.gen_program(rng, cls, steps=(2, 10), sub_steps=(1, 4), max_depth=2, reps=[1, 1, 2, 3], qubits=5)
    qubits = sorted({q for q in _qubits(prog["circuit"])})
    order_mode = rng.choice(["none", "permutation", "prefix", "unknown", "permutation"])
    order: Optional[List[int]] = None
    if order_mode == "permutation":
        order = list(qubits)
        rng.shuffle(order)
    elif order_mode == "prefix":
        order = rng.sample(qubits, rng.randint(0, len(qubits))) if qubits else []
    elif order_mode == "unknown":
        # the unknown channel varies: a far index, a negative one, or a small unoccupied index (0 when the circuit leaves it free),
        # alone or among known channels, at any position of the requested order (seeded change C18-r11: a truthiness test let 0 through)
        free = [q for q in range(0, 8) if q not in qubits]
        pool = [77, -1] + free + ([0] * 3 if 0 in free else [])
        unknown_channels = [rng.choice(pool)] + ([rng.choice(pool)] if rng.random() < 0.2 else [])
        order = rng.sample(qubits, rng.randint(0, len(qubits))) if qubits else []
        for u in unknown_channels:
            order.insert(rng.randint(0, len(order)), u)
    labels = None
    if rng.random() < 0.5:
        labels = {str(q): f"L{q}" for q in qubits if rng.random() < 0.7}
    prog["drawing"] = {"order": order, "order_mode": order_mode, "labels": labels, "compact": rng.random() < 0.6, "unroll": rng.random() < 0.3}
    return prog


def _qubits(circ: Dict[str, Any]):
    for st in circ["steps"]:
        if "sub" in st:
            yield from _qubits(st["sub"])
        else:
            yield from st["q"]


def circuit_snapshot(circuit) -> Dict[str, Any]:
    ops = circuit.operations
    return {
        "ids": [id(o) for o in ops],
        "listing": c05.snapshot(ops, [(0.0, 0.0)] * len(ops)),
        "raw": [(round(s, 7), round(e, 7)) for s, e in snap.raw_times(ops)],
        "shadow": [(round(s, 7), round(e, 7)) for s, e in snap.shadow_times(ops)],
        "duration": round(snap.raw_value(lambda: float(circuit.duration)), 7),
        "acquisition": c05.acquisition(ops),
        "ops": ops,
    }


def check_program(prog: Dict[str, Any], acc: Acc, flags=None):
    import matplotlib
    matplotlib.use("Agg")
    import matplotlib.pyplot as plt
    from qce_circuit.visualization.visualize_circuit.display_circuit import plot_circuit
    install_hooks()
    flags = flags if flags is not None else {}
    ctx = bp.Ctx(prog.get("settings"))
    S = ctx.S
    case = {"program": prog}
    opt = prog["drawing"]
    nondefault_glob = any(abs(S.glob[k] - DEFAULT_GLOBAL[k]) > 1e-12 for k in DEFAULT_GLOBAL)
    identity_order = opt["order"] in (None, [], sorted(opt["order"] or []))
    flags["nontrivial"] = nondefault_glob and not identity_order
    with ctx.global_override():
        built = bp.build(prog, ctx)
        circuit = built.top.circuit
        model_level = built.top.mnodes
        if opt["unroll"]:
            top_reps = M.reps_of(M.MNode(is_block=True, reps=prog["circuit"].get("reps", 1)), S)
            stats: Dict[str, int] = {}
            model_level = M.unroll(built.top.mnodes, top_reps, S, stats)
            circuit = circuit.apply_modifiers()
            if stats.get("unroll_degenerate"):
                model_level = None
        before = circuit_snapshot(circuit)
        occupied = list(dict.fromkeys(q for s in before["listing"] for q in s[0][1]))
        labels = {int(k): v for k, v in opt["labels"].items()} if opt["labels"] is not None else None
        _HOOKS["placements"] = []
        _HOOKS["dots"] = []
        _HOOKS["constructed"] = []
        _HOOKS["barriers"] = []
        _HOOKS["description"] = None
        memo_shadow.drain()
        try:
            fig, ax = plot_circuit(circuit, channel_order=opt["order"], channel_map=labels, compact_visualization=opt["compact"])
            size = tuple(float(v) for v in fig.get_size_inches())
            plt.close(fig)
            raised = None
        except Exception as exc:
            raised = exc
        finally:
            plt.close("all")
        acc.count("drawings")
        unknown = bool(opt["order"]) and any(q not in occupied for q in opt["order"])
        if unknown:
            if isinstance(raised, ValueError):
                acc.count("unknown_channel_rejected")
                if 0 in opt["order"] and 0 not in occupied:
                    acc.count("unknown_channel_zero_rejected")
            else:
                acc.finding("order/unknown-channel-accepted", "an unknown channel in the requested order is not rejected with a ValueError", case,
                            {"raised": type(raised).__name__ if raised else None})
        elif raised is not None:
            acc.finding("draw/raises", f"plot_circuit raises {type(raised).__name__} for a circuit the API can build", case, {"error": str(raised)[:200]})
        if raised is None and not unknown:
            _check_drawing(acc, case, opt, occupied, labels, S, model_level, size)
        # ---- the circuit is left alone
        after = circuit_snapshot(circuit)
        acc.count("snapshots_compared")
        if after["ids"] != before["ids"] or after["listing"] != before["listing"]:
            acc.finding("side-effect/listing", "drawing changed the operation listing or its relations", case, None)
        elif after["acquisition"] != before["acquisition"]:
            acc.finding("side-effect/acquisition", "drawing changed acquisition indices", case, None)
        elif after["shadow"] != before["shadow"] or abs(after["duration"] - before["duration"]) > TOL and after["shadow"] != before["shadow"]:
            acc.finding("side-effect/schedule", "drawing changed the schedule (memo-free evaluation)", case, None)
        elif after["raw"] != before["raw"] or abs(after["duration"] - before["duration"]) > TOL:
            k = next((i for i, (a, b) in enumerate(zip(after["raw"], before["raw"])) if a != b), -1)
            acc.finding("side-effect/reported-times", "times/duration reported after drawing differ from those before (stale memo or durations not restored)", case,
                        {"pos": k, "before": before["raw"][k] if k >= 0 else before["duration"], "after": after["raw"][k] if k >= 0 else after["duration"]})
        if opt["compact"] and nondefault_glob:
            acc.count("compact_under_nondefault_global")
    memo = memo_shadow.drain()
    if memo["discrepancy_count"]:
        acc.finding("stale-memo/monitor", "a time query during/after drawing was answered from a stale memo", case, memo["discrepancies"][:3])


def _check_drawing(acc: Acc, case, opt, occupied: List[int], labels, S: M.Settings, model_level, size):
    desc = _HOOKS["description"]
    if desc is None:
        acc.inconclusive.append("drawing hook never reached (plot_circuit_description not called through the module attribute)")
        return
    # ---- rows
    req = list(opt["order"] or [])
    rows = list(desc.channel_indices)
    if rows[:len(req)] != req or sorted(rows) != sorted(set(occupied)) or len(set(rows)) != len(rows):
        acc.finding("order/rows", "channel rows are not the requested order followed by the remaining occupied channels", case,
                    {"rows": rows, "requested": req, "occupied": occupied})
        return
    # ---- labels
    if labels is not None:
        acc.count("label_maps_checked")
    for i, ch in enumerate(rows):
        want = (labels or {}).get(ch, ch)
        if desc.channel_label_map.get(i) != want:
            acc.finding("labels/wrong", "a channel row does not carry the label of its channel", case, {"row": i, "channel": ch, "got": desc.channel_label_map.get(i), "want": want})
            break
    # ---- drawing durations
    draw_S = M.Settings(dict(DEFAULT_GLOBAL) if opt["compact"] else dict(S.glob), S.reg, S.reps)
    inside = _HOOKS.get("inside") or {}
    if any(abs(inside.get(k, draw_S.glob[k]) - draw_S.glob[k]) > 1e-9 for k in draw_S.glob):
        acc.finding("durations/inside-drawer", "durations in force inside the drawer are not the drawing's own (compact) / the current global ones", case,
                    {"inside": inside, "expected": draw_S.glob})
        return
    # ---- placements: row and horizontal position
    placed: Dict[int, Tuple[Any, float]] = {}
    for ch, comp, x, y, spacing, indices in _HOOKS["placements"]:
        acc.count("rows_checked")
        row = round(-y / spacing) if spacing else 0
        if row < 0 or row >= len(rows) or rows[row] != ch or abs(-row * spacing - y) > 1e-6:
            acc.finding("placement/row", "an operation is not placed on the row of its qubit", case, {"channel": ch, "y": y, "rows": rows})
            return
        placed.setdefault(id(comp), (comp, x))
    if model_level is None:
        return
    expect: Dict[Tuple, List[float]] = {}
    for n, s, e in M.leaf_records(model_level, draw_S, 0.0):
        expect.setdefault(M.sig(n, draw_S), []).append(s)
    latest_end = max((e for _, _, e in M.leaf_records(model_level, draw_S, 0.0)), default=0.0)
    for comp, x in placed.values():
        if snap.is_composite(comp):
            continue
        acc.count("placements_checked")
        sig = _sig_under(comp, draw_S)
        starts = expect.get(sig, [])
        dur = sig[3]
        tol = TOL + (0.25 * dur * dur if len(sig[1]) == 2 else 0.0)
        hit = [s for s in starts if abs(s - x) <= tol]
        if not hit:
            acc.finding("placement/x", "an operation is not drawn at the horizontal position of its start time under the drawing's durations", case,
                        {"op": sig[0], "x": x, "model_starts": sorted(starts)[:6], "compact": opt["compact"]})
            return
        starts.remove(min(hit, key=lambda s: abs(s - x)))
    # "places EACH operation": nothing of the listing is left without a position (seeded change C18-r13: a two-qubit kind missing from the
    # bulk factory's table was skipped silently)
    acc.count("complete_placement_checks")
    missing = [(sig_left[0], list(sig_left[1]), st) for sig_left, starts_left in expect.items() for st in starts_left]
    if missing:
        acc.finding("placement/missing", "an operation of the circuit is given no position on any row", case,
                    {"kind": missing[0][0], "qubits": missing[0][1], "start": missing[0][2], "n_missing": len(missing)})
        return
    drawn: Dict[Tuple, int] = {}
    for op in (_HOOKS.get("constructed") or []):
        if not snap.is_composite(op):
            k = _sig_under(op, draw_S)
            drawn[k] = drawn.get(k, 0) + 1
            acc.hist("component_constructed_for_kind", type(op).__name__)
    # the kinds the drawer has no symbol for (plain TwoQubitOperation, TwoQubitVirtualPhase) are outside "all drawable operation kinds"
    for n, s_, e_ in M.leaf_records(model_level, draw_S, 0.0):
        k = M.sig(n, draw_S)
        if drawn.get(k, 0) > 0:
            drawn[k] -= 1
            acc.count("operations_with_draw_component")
        elif k[0] in ("TwoQubitOperation", "TwoQubitVirtualPhase"):
            acc.hist("no_component_for_kind", k[0])
        else:
            acc.finding("placement/missing", "a drawable operation of the circuit gets no draw component (it is not drawn at all)", case,
                        {"kind": k[0], "qubits": list(k[1]), "start": s_})
            return
    # ---- final position of controlled-phase gates that share their time slot with no other two-qubit gate on intersecting rows:
    #      both dots exactly at start + duration / 2 on the rows of their qubits (the side-by-side arrangement applies to gates
    #      whose row ranges intersect only)
    spacing = _HOOKS["placements"][0][4] if _HOOKS["placements"] else 0.0
    row_of = {ch: i for i, ch in enumerate(rows)}
    two = [(n, s_, e_) for n, s_, e_ in M.leaf_records(model_level, draw_S, 0.0) if len(n.qubits) == 2 and all(q in row_of for q in n.qubits)]
    dots = list(_HOOKS.get("dots") or [])
    if spacing and dots:
        for n, s_, e_ in two:
            if n.kind != "CPhase":
                continue
            lo, hi = sorted(row_of[q] for q in n.qubits)
            crowded = any(m is not n and abs(ms - s_) <= TOL and not (max(row_of[q] for q in m.qubits) < lo or min(row_of[q] for q in m.qubits) > hi)
                          for m, ms, _ in two)
            if crowded:
                acc.count("two_qubit_gates_sharing_rows")
                continue
            acc.count("isolated_cphase_dots_checked")
            x_want = s_ + 0.5 * (e_ - s_)
            for q in n.qubits:
                y_want = -row_of[q] * spacing
                if not any(abs(dx - x_want) <= 1e-6 and abs(dy - y_want) <= 1e-6 for dx, dy in dots):
                    acc.finding("placement/two-qubit-dot", "a controlled-phase gate that shares its rows with no other simultaneous two-qubit gate is not drawn at its start time",
                                case, {"qubits": list(n.qubits), "expected": [x_want, y_want], "dots": sorted(dots)[:8]})
                    return
        # simultaneous controlled-phase gates whose row ranges intersect: the drawer arranges them side by side.  Only OBSERVED (counted), not
        # judged: the statement asks for the position of the start time and allows the documented artistic offset; it does not say that
        # such gates may not share an x (the unchanged drawer itself draws two of four such gates at one x - DESIGN.md 9.3, C18-r12)
        cps = [(n, s_, e_) for n, s_, e_ in two if n.kind == "CPhase" and e_ - s_ > TOL]
        for i, (a, sa, ea) in enumerate(cps):
            for b, sb, eb in cps[i + 1:]:
                if abs(sa - sb) > TOL or set(a.qubits) & set(b.qubits):
                    continue
                ra, rb = sorted(row_of[q] for q in a.qubits), sorted(row_of[q] for q in b.qubits)
                if not (ra[1] < rb[0] or rb[1] < ra[0]):
                    acc.count("side_by_side_pairs_observed")
    # ---- a barrier is drawn over the rows of ALL of its qubits
    for top_y, bot_y, centers in (_HOOKS.get("barriers") or []):
        acc.count("barrier_extents_checked")
        if centers and (bot_y > min(centers) + 1e-9 or top_y < max(centers) - 1e-9):
            acc.finding("placement/barrier-extent", "a barrier is not drawn over the rows of all of its qubits", case,
                        {"drawn": [bot_y, top_y], "qubit_rows_y": sorted(centers)})
            return
    # ---- figure width
    want_w = max(1.0, latest_end) + 1.0
    if abs(desc.channel_width - want_w) > TOL or abs(size[0] - want_w) > 1e-3:
        acc.finding("figure/width", "figure width is not the latest end time (+1) under the drawing's durations", case,
                    {"channel_width": desc.channel_width, "figure": size[0], "expected": want_w})
    if abs(size[1] - 1.2 * len(rows)) > 1e-3 and rows:
        acc.finding("figure/height", "figure height does not follow the number of channel rows", case, {"figure": size[1], "rows": len(rows)})


def _sig_under(op, S: M.Settings) -> Tuple:
    """Signature of a real operation with the duration it has under settings S (the drawing's), via the model's duration rules."""
    from qv.kinds import SPEC
    sig = snap.op_sig(op)
    kind = sig[0]
    spec = SPEC.get(kind)
    dur = sig[3]
    if spec and spec["dur"] != "cfg" and spec["dur"][0] == "global":
        dur = round(float(S.glob[spec["dur"][1]]), 9)
    elif spec and spec["dur"] == "cfg":
        strat = getattr(op, "duration_strategy", None)
        key = getattr(strat, "key", None)
        if key is not None and hasattr(key, "name") and type(strat).__name__ == "GlobalDurationStrategy":
            dur = round(float(S.glob[key.name]), 9)
    return (sig[0], sig[1], sig[2], dur, sig[4], sig[5])


def run_shard(shard: Dict[str, Any]) -> Acc:
    acc = Acc()
    rng = random.Random(shard["seed"])
    classes = shard["classes"]
    for i in range(shard["n"]):
        cls = classes[i % len(classes)]
        prog = gen_case(rng, cls)
        acc.hist("class", cls)
        acc.hist("order_mode", prog["drawing"]["order_mode"])
        acc.hist("compact", prog["drawing"]["compact"])
        flags: Dict[str, Any] = {}
        common.guarded(acc, check_program, prog, acc, flags, case={"program": prog})
        acc.case(bp.phash(prog), bool(flags.get("nontrivial")), sample=prog if i < 40 else None)
    return acc


def replay(shard: Dict[str, Any]) -> Acc:
    acc = Acc()
    check_program(shard["case"]["program"], acc)
    acc.case("replay", True, sample=shard["case"])
    return acc
