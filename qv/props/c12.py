"""C12 — Index kernels tile the acquisition index range without gaps or overlap."""
import itertools
import random
from typing import Any, Dict, List

from qv import bp
from qv.acc import Acc
from qv.props import common

META = {
    "level": "exploration",
    "technique": "runtime monitoring, bounded-exhaustive: every experiment description in the bounded domain is instantiated and all kernel getters are checked against the tiling/disjointness/translation invariants",
    "rule": ("EXHAUSTIVE: every ordered list of distinct round counts from {0..5} of length 1..3 (quick) / {0..6} of length 1..4 (thorough) x heralded in "
             "{True, False} x experiment repetitions in {1, 2, 5} x three identifier sets (1-3 data, 1-2 ancilla names); plus (thorough) random lists of up to "
             "12 distinct counts below 60; a case is one experiment description, all distinct; non-trivial = the list contains a 0 or a 1 together with another value"),
    "assumptions": ["oracle is the statement: contiguity, containment, pairwise disjointness, ancilla coverage minus one slot per 0-round block, translation by the cycle length, estimate inverts size = repetitions x cycle"],
    "exhaustive": {"quick": True, "thorough": True},
    "floors": {
        "quick": {"experiments": 2500, "kernels_checked": 9000, "ancilla_coverage_checks": 3000, "translation_checks": 2500, "estimate_checks": 2500, "large_experiments": 50, "large_beyond_int32": 15, "experiments_without_calibration_points": 800, "medium_round_experiments": 20, "large_getter_reads": 1000, "handed_rounds_list_changed": 300},
        "thorough": {"experiments": 19000, "kernels_checked": 70000, "large_experiments": 500, "large_beyond_int32": 200},
    },
}

ID_SETS = [(["D1"], ["Z1"]), (["D1", "D2"], ["Z1"]), (["D7", "D4", "D5"], ["Z3", "Z1"])]


def enumerate_cases(tier: str) -> List[Dict[str, Any]]:
    top, maxlen = (5, 3) if tier == "quick" else (6, 4)
    cases = []
    for length in range(1, maxlen + 1):
        for rounds in itertools.permutations(range(top + 1), length):
            for heralded in (True, False):
                for reps in (1, 2, 5):
                    for ids in range(len(ID_SETS)):
                        cases.append({"rounds": list(rounds), "heralded": heralded, "reps": reps, "ids": ids})
    return cases


def plan(tier: str, seed: int) -> List[Dict[str, Any]]:
    n = len(enumerate_cases(tier))
    shards = [{"kind": "enum", "tier": tier, "part": i, "parts": 16, "hashseed": 0, "total": n} for i in range(16)]
    shards.append({"kind": "large", "n": 60 if tier == "quick" else 600, "seed": common.seed_base(seed, 121), "hashseed": 0})
    shards.append({"kind": "medium", "n": 24 if tier == "quick" else 200, "seed": common.seed_base(seed, 122), "hashseed": 0})
    if tier == "thorough":
        shards.append({"kind": "random", "n": 3000, "seed": common.seed_base(seed, 12), "hashseed": 0})
    return shards


def check_case(case: Dict[str, Any], acc: Acc):
    import numpy as np
    from qce_circuit.connectivity.intrf_channel_identifier import QubitIDObj
    from qce_circuit.structure.acquisition_indexing.kernel_repetition_code import RepetitionExperimentKernel
    from qce_circuit.structure.acquisition_indexing.intrf_stabilizer_index_kernel import StateKey
    rounds, heralded, reps = case["rounds"], case["heralded"], case["reps"]
    data_names, anc_names = case.get("id_names") or ID_SETS[case["ids"]]
    data = [QubitIDObj(n) for n in data_names]
    anc = [QubitIDObj(n) for n in anc_names]
    wrap = {"experiment": case}
    acc.count("experiments")
    # the constructor is handed its own list object; in 2 of 5 experiments the caller re-uses (sorts / reverses / overwrites / empties) that
    # object afterwards - the description a kernel was built from is the one at construction (seeded change C12-r11: getters zipped over the live list)
    handed = list(rounds)
    kernel = RepetitionExperimentKernel(rounds=handed, heralded_initialization=heralded, qutrit_calibration_points=True,
                                        involved_data_qubit_ids=data, involved_ancilla_qubit_ids=anc, experiment_repetitions=reps)
    edit = (sum(rounds) * 7 + len(rounds) * 3 + reps + (1 if heralded else 0)) % 10
    if edit < 4:
        if edit == 0:
            handed.sort()
        elif edit == 1:
            handed.reverse()
        elif edit == 2:
            handed[:] = [handed[-1]] + handed[:-1] if len(handed) > 1 else [handed[0] + 1]
        else:
            handed.clear()
        acc.count("handed_rounds_list_edited")
        if handed != list(rounds):
            acc.count("handed_rounds_list_changed")
    h = 1 if heralded else 0
    kernels = kernel.indexing_kernels
    # ---- contiguity
    prev_stop = None
    for k in kernels:
        acc.count("kernels_checked")
        if k.kernel_length != k.stop_index - k.start_index + 1 or k.stop_index < k.start_index:
            acc.finding("kernel/length", "kernel length is not stop - start + 1 (or is empty)", wrap, {"start": k.start_index, "stop": k.stop_index})
        if prev_stop is not None and k.start_index != prev_stop + 1:
            acc.finding("kernel/not-contiguous", "a kernel does not start right after the previous one", wrap, {"start": k.start_index, "previous_stop": prev_stop})
        prev_stop = k.stop_index
    cycle = kernel.kernel_cycle_length
    if cycle != kernels[-1].stop_index - kernels[0].start_index + 1:
        acc.finding("kernel/cycle-length", "cycle length is not the span of the kernels", wrap, {"cycle": cycle})
    base = kernels[0].start_index
    # ---- per qubit: categories inside their kernel, pairwise disjoint, coverage for ancillas
    for q, is_anc in [(x, False) for x in data] + [(x, True) for x in anc]:
        seen: Dict[int, str] = {}

        def claim(indices, label, lo, hi):
            for i in indices:
                i = int(i)
                if not lo <= i <= hi:
                    acc.finding("category/outside-kernel", f"a {label.split(':')[0]} index lies outside its kernel", wrap,
                                {"qubit": q.id, "index": i, "kernel": [lo, hi], "label": label})
                if i in seen:
                    acc.finding("category/overlap", "two index categories of one qubit overlap", wrap, {"qubit": q.id, "index": i, "a": seen[i], "b": label})
                seen[i] = label

        for rk, n in zip(kernels[:-1], rounds):
            lo, hi = rk.start_index, rk.stop_index
            her = rk.get_heralded_measurement_index(q)
            stab = rk.get_ordered_stabilizer_measurement_indices(q)
            fin = rk.get_final_measurement_index(q)
            claim(her, f"heralded:{n}", lo, hi)
            claim(stab, f"stabilizer:{n}", lo, hi)
            claim(fin, f"final:{n}", lo, hi)
            if sorted(int(i) for i in rk.contains(q)) != sorted(int(i) for i in list(her) + list(stab) + list(fin)):
                acc.finding("category/contains", "contains() is not the union of the categories", wrap, {"qubit": q.id})
            if len(her) != h:
                acc.finding("category/heralded-count", "number of heralded indices does not follow the heralded setting", wrap, {"qubit": q.id, "n": len(her)})
            if not is_anc and len(stab) != 0:
                acc.finding("category/data-stabilizer", "a data qubit is given stabilizer indices", wrap, {"qubit": q.id})
        ck = kernels[-1]
        for state, hf, pf in [(0, ck.get_heralded_state_0_measurement_index, ck.get_state_0_measurement_index),
                              (1, ck.get_heralded_state_1_measurement_index, ck.get_state_1_measurement_index),
                              (2, ck.get_heralded_state_2_measurement_index, ck.get_state_2_measurement_index)]:
            claim(hf(q), f"calibration-heralded:{state}", ck.start_index, ck.stop_index)
            claim(pf(q), f"calibration:{state}", ck.start_index, ck.stop_index)
        if is_anc:
            acc.count("ancilla_coverage_checks")
            want = set(range(base, base + cycle))
            for rk, n in zip(kernels[:-1], rounds):
                if n == 0:
                    want.discard(rk.start_index + h)      # the documented missing slot: the block's single post-heralding index
            if set(seen) != want:
                acc.finding("category/ancilla-coverage", "the categories of an ancilla do not cover the cycle (minus the 0-round slot)", wrap,
                            {"qubit": q.id, "missing": sorted(want - set(seen))[:8], "extra": sorted(set(seen) - want)[:8]})
        # ---- experiment getters: translation by the cycle length
        acc.count("translation_checks")
        for n in rounds:
            for name in ("get_heralded_cycle_acquisition_indices", "get_stabilizer_and_projected_cycle_acquisition_indices", "get_projected_cycle_acquisition_indices"):
                # the round count is passed as an independently created int object of the same value
                arr = np.asarray(getattr(kernel, name)(qubit_id=q, cycle_stabilizer_count=int(str(n))))
                if arr.size == 0:
                    rk0 = kernels[rounds.index(n)]
                    own0 = {"get_heralded_cycle_acquisition_indices": list(rk0.get_heralded_measurement_index(q)),
                            "get_stabilizer_and_projected_cycle_acquisition_indices": list(rk0.get_ordered_stabilizer_measurement_indices(q)) + list(rk0.get_final_measurement_index(q)),
                            "get_projected_cycle_acquisition_indices": list(rk0.get_final_measurement_index(q))}[name]
                    if own0:
                        acc.finding("translation/empty", f"{name} returns nothing for a block whose kernel lists indices for the qubit", wrap, {"qubit": q.id, "n": n, "kernel": own0[:6]})
                    continue
                if arr.shape[0] != reps:
                    acc.finding("translation/shape", f"{name} does not return one row per experiment repetition", wrap, {"shape": list(arr.shape)})
                    continue
                for r in range(reps):
                    if (arr[r] != arr[0] + r * cycle).any():
                        acc.finding("translation/offset", f"{name}: repetition {r} is not repetition 0 translated by r x cycle length", wrap, {"qubit": q.id, "n": n})
                        break
                rk = kernels[rounds.index(n)]
                exp0 = {"get_heralded_cycle_acquisition_indices": list(rk.get_heralded_measurement_index(q)),
                        "get_stabilizer_and_projected_cycle_acquisition_indices": list(rk.get_ordered_stabilizer_measurement_indices(q)) + list(rk.get_final_measurement_index(q)),
                        "get_projected_cycle_acquisition_indices": list(rk.get_final_measurement_index(q))}[name]
                if [int(v) for v in arr[0]] != [int(v) for v in exp0]:
                    acc.finding("translation/first-repetition", f"{name}: first repetition differs from the kernel's own indices", wrap, {"qubit": q.id, "n": n})
        for state in (StateKey.STATE_0, StateKey.STATE_1, StateKey.STATE_2):
            for name in ("get_projected_calibration_acquisition_indices", "get_heralded_calibration_acquisition_indices"):
                arr = np.asarray(getattr(kernel, name)(qubit_id=q, state=state))
                m = arr.size // reps if reps else 0
                if arr.size and arr.size % reps == 0:
                    rows = arr.reshape(reps, m)
                    for r in range(reps):
                        if (rows[r] != rows[0] + r * cycle).any():
                            acc.finding("translation/offset", f"{name}: repetition {r} is not repetition 0 translated by r x cycle length", wrap, {"qubit": q.id})
                            break
                    if any(not ck.start_index <= int(v) <= ck.stop_index for v in rows[0]):
                        acc.finding("category/outside-kernel", "calibration getter returns an index outside the calibration kernel", wrap, {"qubit": q.id})
                    own = {("get_projected_calibration_acquisition_indices", StateKey.STATE_0): ck.get_state_0_measurement_index,
                           ("get_projected_calibration_acquisition_indices", StateKey.STATE_1): ck.get_state_1_measurement_index,
                           ("get_projected_calibration_acquisition_indices", StateKey.STATE_2): ck.get_state_2_measurement_index,
                           ("get_heralded_calibration_acquisition_indices", StateKey.STATE_0): ck.get_heralded_state_0_measurement_index,
                           ("get_heralded_calibration_acquisition_indices", StateKey.STATE_1): ck.get_heralded_state_1_measurement_index,
                           ("get_heralded_calibration_acquisition_indices", StateKey.STATE_2): ck.get_heralded_state_2_measurement_index}[(name, state)](q)
                    acc.count("calibration_getters_vs_kernel")
                    if [int(v) for v in rows[0]] != [int(v) for v in own]:
                        acc.finding("category/calibration-state", f"{name}({state.name}): first repetition is not the calibration kernel's own index for that state", wrap,
                                    {"qubit": q.id, "got": [int(v) for v in rows[0]], "kernel": [int(v) for v in own]})
                elif arr.size:
                    acc.finding("translation/shape", f"{name} does not return the same number of indices per repetition", wrap, {"size": int(arr.size)})
    # ---- repetition estimate inverts dataset size = repetitions x cycle length
    acc.count("estimate_checks")
    est = RepetitionExperimentKernel.estimate_experiment_repetitions(rounds=rounds, heralded_initialization=heralded, qutrit_calibration_points=True,
                                                                     dataset_size=reps * cycle)
    if est != reps:
        acc.finding("estimate/wrong", "estimate_experiment_repetitions does not invert size = repetitions x cycle length", wrap, {"estimate": est, "reps": reps, "cycle": cycle})
    # description without calibration points: the cycle is the span of the repetition kernels only
    cycle_nocal = kernels[-2].stop_index - kernels[0].start_index + 1
    acc.count("estimate_checks_without_calibration")
    est = RepetitionExperimentKernel.estimate_experiment_repetitions(rounds=rounds, heralded_initialization=heralded, qutrit_calibration_points=False,
                                                                     dataset_size=reps * cycle_nocal)
    if est != reps:
        acc.finding("estimate/wrong-without-calibration", "estimate_experiment_repetitions (no calibration points) does not invert size = repetitions x cycle length", wrap,
                    {"estimate": est, "reps": reps, "cycle": cycle_nocal})
    if cycle > 1:
        try:
            RepetitionExperimentKernel.estimate_experiment_repetitions(rounds=rounds, heralded_initialization=heralded, qutrit_calibration_points=True,
                                                                       dataset_size=reps * cycle + 1)
            acc.finding("estimate/accepts-bad-size", "estimate_experiment_repetitions accepts a dataset size that is not a multiple of the cycle length", wrap, None)
        except AssertionError:
            pass


def random_ids(rng: random.Random):
    """Arbitrary identifier sets: 1-5 data and 1-4 ancilla names from a mixed pool (device names, free strings, look-alikes)."""
    pool = ["D1", "D2", "D3", "D4", "D5", "D6", "D7", "D8", "D9", "X1", "X2", "X3", "X4", "Z1", "Z2", "Z3", "Z4", "q0", "q1", "Q10", "a", "A", "data", "anc", "D10", "D11", ""]
    names = rng.sample(pool, rng.randint(2, 9))
    nd = rng.randint(1, min(5, len(names) - 1))
    return [names[:nd], names[nd:nd + 4]]


LARGE_ROUNDS = [0, 1, 3, 10 ** 6, 2 * 10 ** 6 + 1, 5 * 10 ** 8, 2 ** 31 - 3, 2 ** 31 + 5]
LARGE_REPS = [1, 2, 7, 1500, 3000]


def check_large(case: Dict[str, Any], acc: Acc):
    """Large magnitudes (indices beyond 2**31): only getters whose result size does not grow with the round count are read."""
    import numpy as np
    from qce_circuit.connectivity.intrf_channel_identifier import QubitIDObj
    from qce_circuit.structure.acquisition_indexing.kernel_repetition_code import RepetitionExperimentKernel
    from qce_circuit.structure.acquisition_indexing.intrf_stabilizer_index_kernel import StateKey
    rounds, heralded, reps = case["rounds"], case["heralded"], case["reps"]
    data_names, anc_names = case.get("id_names") or ID_SETS[case["ids"]]
    data = [QubitIDObj(n) for n in data_names]
    anc = [QubitIDObj(n) for n in anc_names]
    wrap = {"experiment": dict(case, large=True)}
    acc.count("large_experiments")
    kernel = RepetitionExperimentKernel(rounds=rounds, heralded_initialization=heralded, qutrit_calibration_points=True,
                                        involved_data_qubit_ids=data, involved_ancilla_qubit_ids=anc, experiment_repetitions=reps)
    kernels = kernel.indexing_kernels
    prev_stop = None
    for k in kernels:
        if k.kernel_length != k.stop_index - k.start_index + 1 or k.stop_index < k.start_index:
            acc.finding("kernel/length", "kernel length is not stop - start + 1 (or is empty)", wrap, {"start": int(k.start_index), "stop": int(k.stop_index)})
        if prev_stop is not None and k.start_index != prev_stop + 1:
            acc.finding("kernel/not-contiguous", "a kernel does not start right after the previous one", wrap, {"start": int(k.start_index), "previous_stop": int(prev_stop)})
        prev_stop = k.stop_index
    cycle = int(kernel.kernel_cycle_length)
    if cycle != int(kernels[-1].stop_index) - int(kernels[0].start_index) + 1:
        acc.finding("kernel/cycle-length", "cycle length is not the span of the kernels", wrap, {"cycle": cycle})
    total = reps * cycle
    if total > 2 ** 31:
        acc.count("large_beyond_int32")
    ck = kernels[-1]
    for q in data + anc:
        for n in rounds:
            rk = kernels[rounds.index(n)]
            for name, own in (("get_heralded_cycle_acquisition_indices", rk.get_heralded_measurement_index(q)),
                              ("get_projected_cycle_acquisition_indices", rk.get_final_measurement_index(q))):
                own = [int(v) for v in own]
                if any(not int(rk.start_index) <= v <= int(rk.stop_index) for v in own):
                    acc.finding("category/outside-kernel", "a heralded/final index lies outside its kernel", wrap, {"qubit": q.id, "n": n})
                arr = np.asarray(getattr(kernel, name)(qubit_id=q, cycle_stabilizer_count=n))
                acc.count("large_getter_reads")
                if arr.size == 0:
                    if own:
                        acc.finding("translation/shape", f"{name} returns nothing although the kernel lists indices", wrap, {"qubit": q.id, "n": n})
                    continue
                if arr.shape[0] != reps:
                    acc.finding("translation/shape", f"{name} does not return one row per experiment repetition", wrap, {"shape": list(arr.shape)})
                    continue
                rows = [[int(v) for v in arr[r]] for r in sorted({0, 1, reps // 2, reps - 1}) if r < reps]
                rsel = [r for r in sorted({0, 1, reps // 2, reps - 1}) if r < reps]
                if rows[0] != own:
                    acc.finding("translation/first-repetition", f"{name}: first repetition differs from the kernel's own indices", wrap, {"qubit": q.id, "n": n})
                for r, row in zip(rsel, rows):
                    if row != [v + r * cycle for v in rows[0]]:
                        acc.finding("translation/offset", f"{name}: repetition {r} is not repetition 0 translated by r x cycle length", wrap,
                                    {"qubit": q.id, "n": n, "row": row[:3], "expected": [v + r * cycle for v in rows[0]][:3]})
                        break
                lo, hi = int(arr.min()), int(arr.max())
                if lo < 0 or hi >= total:
                    acc.finding("category/outside-range", f"{name} returns an index outside [0, repetitions x cycle length)", wrap, {"min": lo, "max": hi, "total": total})
        for state in (StateKey.STATE_0, StateKey.STATE_1, StateKey.STATE_2):
            for name in ("get_projected_calibration_acquisition_indices", "get_heralded_calibration_acquisition_indices"):
                arr = np.asarray(getattr(kernel, name)(qubit_id=q, state=state))
                acc.count("large_getter_reads")
                if arr.size and arr.size % reps == 0:
                    rows2 = arr.reshape(reps, arr.size // reps)
                    first = [int(v) for v in rows2[0]]
                    for r in sorted({0, 1, reps // 2, reps - 1}):
                        if r < reps and [int(v) for v in rows2[r]] != [v + r * cycle for v in first]:
                            acc.finding("translation/offset", f"{name}: repetition {r} is not repetition 0 translated by r x cycle length", wrap, {"qubit": q.id})
                            break
                    if any(not int(ck.start_index) <= v <= int(ck.stop_index) for v in first):
                        acc.finding("category/outside-kernel", "calibration getter returns an index outside the calibration kernel", wrap, {"qubit": q.id})
                    if int(arr.min()) < 0 or int(arr.max()) >= total:
                        acc.finding("category/outside-range", f"{name} returns an index outside [0, repetitions x cycle length)", wrap, None)
                elif arr.size:
                    acc.finding("translation/shape", f"{name} does not return the same number of indices per repetition", wrap, {"size": int(arr.size)})
    est = RepetitionExperimentKernel.estimate_experiment_repetitions(rounds=rounds, heralded_initialization=heralded, qutrit_calibration_points=True, dataset_size=total)
    if est != reps:
        acc.finding("estimate/wrong", "estimate_experiment_repetitions does not invert size = repetitions x cycle length", wrap, {"estimate": int(est), "reps": reps, "cycle": cycle})


def check_without_calibration(case: Dict[str, Any], acc: Acc):
    """The same description with calibration points switched off: kernels still tile the cycle, every category the kernel hands
    out lies inside the dataset range, repetitions are translates by the cycle length, and the estimate inverts
    size = repetitions x the cycle length THIS kernel reports."""
    import numpy as np
    from qce_circuit.connectivity.intrf_channel_identifier import QubitIDObj
    from qce_circuit.structure.acquisition_indexing.kernel_repetition_code import RepetitionExperimentKernel
    from qce_circuit.structure.acquisition_indexing.intrf_stabilizer_index_kernel import StateKey
    rounds, heralded, reps = case["rounds"], case["heralded"], case["reps"]
    data_names, anc_names = case.get("id_names") or ID_SETS[case["ids"]]
    data = [QubitIDObj(n) for n in data_names]
    anc = [QubitIDObj(n) for n in anc_names]
    wrap = {"experiment": dict(case, calibration_points=False)}
    acc.count("experiments_without_calibration_points")
    kernel = RepetitionExperimentKernel(rounds=rounds, heralded_initialization=heralded, qutrit_calibration_points=False,
                                        involved_data_qubit_ids=data, involved_ancilla_qubit_ids=anc, experiment_repetitions=reps)
    kernels = kernel.indexing_kernels
    prev_stop = None
    for k in kernels:
        if prev_stop is not None and k.start_index != prev_stop + 1:
            acc.finding("kernel/not-contiguous", "a kernel does not start right after the previous one (no calibration points)", wrap, None)
        prev_stop = k.stop_index
    cycle = int(kernel.kernel_cycle_length)
    if cycle != int(kernels[-1].stop_index) - int(kernels[0].start_index) + 1:
        acc.finding("kernel/cycle-length", "cycle length is not the span of the kernels (no calibration points)", wrap, {"cycle": cycle})
    total = reps * cycle
    try:
        est = RepetitionExperimentKernel.estimate_experiment_repetitions(rounds=rounds, heralded_initialization=heralded, qutrit_calibration_points=False,
                                                                         dataset_size=total)
    except AssertionError:
        est = None
    if est != reps:
        acc.finding("estimate/inconsistent-without-calibration", "without calibration points the repetition estimate does not invert size = repetitions x the cycle length the kernel reports",
                    wrap, {"estimate": est, "reps": reps, "kernel_cycle_length": cycle})
    for q in data + anc:
        for n in rounds:
            for name in ("get_heralded_cycle_acquisition_indices", "get_stabilizer_and_projected_cycle_acquisition_indices", "get_projected_cycle_acquisition_indices"):
                arr = np.asarray(getattr(kernel, name)(qubit_id=q, cycle_stabilizer_count=n))
                if arr.size == 0 or arr.shape[0] != reps:
                    continue
                for r in range(reps):
                    if (arr[r] != arr[0] + r * cycle).any():
                        acc.finding("translation/offset", f"{name}: repetition {r} is not repetition 0 translated by r x cycle length (no calibration points)", wrap, {"qubit": q.id})
                        break
                if int(arr.min()) < 0 or int(arr.max()) >= total:
                    acc.finding("category/outside-range", f"{name} returns an index outside [0, repetitions x cycle length) (no calibration points)", wrap, None)
        for state in (StateKey.STATE_0, StateKey.STATE_1, StateKey.STATE_2):
            for name in ("get_projected_calibration_acquisition_indices", "get_heralded_calibration_acquisition_indices"):
                arr = np.asarray(getattr(kernel, name)(qubit_id=q, state=state))
                if arr.size and (int(arr.min()) < 0 or int(arr.max()) >= total):
                    acc.finding("category/outside-range", f"{name} returns an index outside [0, repetitions x cycle length) although the description has no calibration points",
                                wrap, {"qubit": q.id, "max": int(arr.max()), "total": total})


def check_program(case: Dict[str, Any], acc: Acc):
    if case.get("calibration_points") is False:
        check_without_calibration(case, acc)
        return
    if case.get("large"):
        check_large(case, acc)
    else:
        check_case(case, acc)


def run_shard(shard: Dict[str, Any]) -> Acc:
    acc = Acc()
    if shard["kind"] == "enum":
        cases = enumerate_cases(shard["tier"])
        for i, case in enumerate(cases):
            if i % shard["parts"] != shard["part"]:
                continue
            nontrivial = (0 in case["rounds"] or 1 in case["rounds"]) and len(case["rounds"]) >= 2
            acc.case(bp.phash(case), nontrivial, sample=case)
            common.guarded(acc, check_case, case, acc, case={"experiment": case})
            if i % 3 == 0:
                common.guarded(acc, check_without_calibration, case, acc, case={"experiment": dict(case, calibration_points=False)})
        acc.count("enumerated_space_size", shard["total"] if shard["part"] == 0 else 0)
        return acc
    rng = random.Random(shard["seed"])
    if shard["kind"] == "medium":
        # round counts beyond the range of shared small-int objects (and of the enumerated domain), all getters read in full
        for i in range(shard["n"]):
            case = {"rounds": rng.sample([0, 1, 2, 257, 300, 511, 1000], rng.randint(1, 3)), "heralded": rng.random() < 0.5, "reps": rng.choice([1, 2, 3]),
                    "ids": rng.randrange(len(ID_SETS))}
            acc.count("medium_round_experiments")
            acc.case(bp.phash(case), True, sample=case if i < 2 else None)
            common.guarded(acc, check_case, case, acc, case={"experiment": case})
        return acc
    if shard["kind"] == "large":
        for i in range(shard["n"]):
            length = rng.randint(1, 3)
            case = {"rounds": rng.sample(LARGE_ROUNDS, length), "heralded": rng.random() < 0.5, "reps": rng.choice(LARGE_REPS), "ids": rng.randrange(len(ID_SETS)), "large": True}
            if rng.random() < 0.5:
                case["id_names"] = random_ids(rng)
            acc.case(bp.phash(case), True, sample=case if i < 2 else None)
            common.guarded(acc, check_large, case, acc, case={"experiment": case})
        return acc
    for i in range(shard["n"]):
        length = rng.randint(1, 12)
        case = {"rounds": rng.sample(range(0, 60), length), "heralded": rng.random() < 0.5, "reps": rng.choice([1, 2, 3, 7]), "ids": rng.randrange(len(ID_SETS))}
        if rng.random() < 0.5:
            case["id_names"] = random_ids(rng)
        acc.case(bp.phash(case), len(case["rounds"]) >= 2, sample=None)
        common.guarded(acc, check_case, case, acc, case={"experiment": case})
    return acc


def replay(shard: Dict[str, Any]) -> Acc:
    acc = Acc()
    check_program(shard["case"]["experiment"], acc)
    acc.case("replay", True, sample=shard["case"])
    return acc
