"""C17 — Declared and derived gate-sequence layouts are executable."""
import random
from typing import Any, Dict, List, Set, Tuple

from qv import bp
from qv.acc import Acc
from qv.props import common, libgen, c16

META = {
    "level": "exploration",
    "technique": "runtime monitoring: structural observer over every layer of every shipped layout and of descriptions derived from them (device edges, distinct qubits, park/gate exclusion, required parking from the independent frequency model, edge coverage, filters, index bijection)",
    "rule": ("the three shipped repetition layouts on the Surface-17 device; RepetitionCodeDescription.from_connectivity for every contiguous data-to-data sub-chain "
             "(both orientations), random subsets and random orderings of the involved qubits, with and without a custom index map; "
             "CompositeRepetitionCodeDescription with random gate/qubit exclusions, leading descriptions and only-required parking; layouts emitted by the "
             "sequence generator; distinct by input hash; non-trivial = a derived description (not one of the three shipped layouts themselves)"),
    "assumptions": ["required parking from the independent frequency model of C16; device edges and neighbours from the Surface-17 layer"],
    "floors": {
        "quick": {"composites_with_two_leading_descriptions": 60, "shipped_layouts": 3, "layers_checked": 7000, "derived_descriptions": 1900, "composite_descriptions": 300, "base_reread_after_composite": 300, "generated_layouts": 1, "generator_calls": 20, "required_parking_queries": 50000},
        "thorough": {"shipped_layouts": 3, "layers_checked": 70000, "derived_descriptions": 19000, "composite_descriptions": 3000},
    },
}


def plan(tier: str, seed: int) -> List[Dict[str, Any]]:
    total = 2000 if tier == "quick" else 20000
    shards = common.split_shards("derived", total, 14, seed, 17)
    shards.append({"kind": "shipped", "hashseed": 0, "seed": 0, "n": 0})
    shards.append({"kind": "generated", "hashseed": 0, "seed": common.seed_base(seed, 171), "n": 30 if tier == "quick" else 120})
    return shards


class Device:
    def __init__(self):
        self.conn = c16.layer()
        self.model = c16.Model(c16.edge_names(self.conn))
        self.edge_set = {frozenset(e) for e in self.model.edges}
        self.qubits = [q.id for q in self.conn.qubit_ids]


def layer_sets(layer) -> Tuple[List[Tuple[str, str]], List[str]]:
    gates = [tuple(q.id for q in op.identifier.qubit_ids) for op in layer.gate_operations]
    parks = [op.identifier.id for op in layer.park_operations]
    return gates, parks


def check_layer(dev: Device, gates: List[Tuple[str, str]], parks: List[str], acc: Acc, case, where: str, check_required: bool = True):
    acc.count("layers_checked")
    for g in gates:
        if frozenset(g) not in dev.edge_set or len(set(g)) != 2:
            acc.finding("layer/not-a-device-edge", f"a gate of a layer is not an edge of the device ({where})", case, {"gate": list(g)})
    qs = [q for g in gates for q in g]
    if len(qs) != len(set(qs)):
        acc.finding("layer/qubit-in-two-gates", f"a qubit takes part in two gates of one layer ({where})", case, {"gates": [list(g) for g in gates]})
    both = sorted(set(parks) & set(qs))
    if both:
        acc.finding("layer/parked-and-gated", f"a qubit is both parked and gated in one layer ({where})", case, {"qubits": both})
    if check_required and len(qs) == len(set(qs)) and all(frozenset(g) in dev.edge_set for g in gates):
        oriented = [c16._orient(g, dev.model) for g in gates]
        for q in dev.qubits:
            acc.count("required_parking_queries")
            if dev.model.requires_parking(q, oriented) and q not in parks:
                acc.finding("layer/missing-park", f"a qubit that requires parking for the layer's gates is not parked ({where})", case, {"qubit": q, "gates": [list(g) for g in gates]})


def check_shipped(dev: Device, acc: Acc):
    for name in libgen.LAYOUTS:
        lay = libgen.layout(name)
        case = {"layout": name}
        acc.count("shipped_layouts")
        acc.case(name, False, sample=case)
        used: List[frozenset] = []
        for i in range(lay.gate_sequence_count):
            gates, parks = layer_sets(lay.get_gate_sequence_at_index(i))
            check_layer(dev, gates, parks, acc, case, f"{name} layer {i}")
            used.extend(frozenset(g) for g in gates)
        # every ancilla-data edge of every parity group exactly once over one full sequence
        wanted = [frozenset(q.id for q in e.qubit_ids) for grp in list(lay.parity_group_x) + list(lay.parity_group_z) for e in grp.edge_ids]
        if sorted(map(sorted, used)) != sorted(map(sorted, wanted)):
            missing = [sorted(e) for e in wanted if used.count(e) == 0]
            twice = [sorted(e) for e in set(used) if used.count(e) > 1]
            extra = [sorted(e) for e in set(used) if e not in wanted]
            acc.finding("layout/edge-coverage", "a shipped layout does not exercise every ancilla-data edge of every parity group exactly once", case,
                        {"missing": missing[:4], "more_than_once": twice[:4], "not_in_a_parity_group": extra[:4]})
        for grp in list(lay.parity_group_x) + list(lay.parity_group_z):
            for e in grp.edge_ids:
                if frozenset(q.id for q in e.qubit_ids) not in dev.edge_set:
                    acc.finding("layout/parity-edge-not-on-device", "a parity group of a shipped layout uses an edge the device does not have", case, {"edge": e.id})


def gen_derived(rng: random.Random) -> Dict[str, Any]:
    name = rng.choice(libgen.LAYOUTS)
    chain = libgen.layout_chain(name)
    mode = rng.choice(["subchain", "subchain", "subset", "shuffled"])
    if mode == "subchain":
        involved = rng.choice(libgen.subchains(name, 9))
    elif mode == "subset":
        involved = [q for q in chain if rng.random() < 0.6] or chain[:3]
    else:
        involved = list(rng.choice(libgen.subchains(name, 6)))
        rng.shuffle(involved)
    inp: Dict[str, Any] = {"layout": name, "involved": involved, "mode": mode}
    r = rng.random()
    if r < 0.25:
        perm = list(range(10, 10 + len(involved)))
        rng.shuffle(perm)
        inp["index_map"] = {q: i for q, i in zip(involved, perm)}
    elif r < 0.45:
        # a device-wide identifier -> channel map (strict superset of the involved qubits)
        everyone = sorted(c16.SPEC_LEVELS)
        perm = list(range(len(everyone)))
        rng.shuffle(perm)
        inp["index_map"] = {q: i for q, i in zip(everyone, perm)}
    if rng.random() < 0.25:
        gates = [g for i in range(libgen.layout(name).gate_sequence_count) for g in layer_sets(libgen.layout(name).get_gate_sequence_at_index(i))[0]
                 if g[0] in involved and g[1] in involved]
        inp["composite"] = {
            # an excluded edge is written in the layout's orientation or reversed (edge identifiers are non-directional)
            "exclude_edges": [(list(g) if rng.random() < 0.5 else list(reversed(g))) for g in gates if rng.random() < 0.2],
            "exclude_gate_qubits": [q for q in involved if rng.random() < 0.1],
            "only_required_parking": rng.random() < 0.5,
            "leading_gate": rng.random() < 0.3,
            "small_base": [rng.randrange(100)] if rng.random() < 0.5 else None,
        }
    return inp


def check_derived(dev: Device, inp: Dict[str, Any], acc: Acc):
    from qce_circuit.library.repetition_code.circuit_components import RepetitionCodeDescription, CompositeRepetitionCodeDescription
    from qce_circuit.connectivity.intrf_channel_identifier import QubitIDObj, EdgeIDObj
    case = {"derived": inp}
    lay = libgen.layout(inp["layout"])
    involved = inp["involved"]
    ids = [QubitIDObj(q) for q in involved]
    index_map = {QubitIDObj(q): i for q, i in inp["index_map"].items()} if inp.get("index_map") else None
    desc = RepetitionCodeDescription.from_connectivity(involved_qubit_ids=ids, connectivity=lay, qubit_index_map=index_map)
    acc.count("derived_descriptions")
    _check_description(dev, lay, desc, involved, inp.get("index_map"), acc, case, excluded_edges=set(), excluded_qubits=set(), dynamic_parking=True)
    comp = inp.get("composite")
    if comp:
        acc.count("composite_descriptions")
        qmap = {QubitIDObj(q): (inp["index_map"][q] if inp.get("index_map") else i) for i, q in enumerate(involved)}
        kwargs: Dict[str, Any] = dict(
            _base_description=desc, _qubit_index_map=qmap, _connectivity=lay,
            _exclude_gate_edge_ids=[EdgeIDObj(QubitIDObj(a), QubitIDObj(b)) for a, b in comp["exclude_edges"]],
            _exclude_gate_qubit_ids=[QubitIDObj(q) for q in comp["exclude_gate_qubits"]],
            _only_required_parking_operations=comp["only_required_parking"],
        )
        if comp["leading_gate"]:
            kwargs["_leading_gate_description"] = desc
        cdesc = CompositeRepetitionCodeDescription(**kwargs)
        base_before = [layer_sets(layer) for layer in desc.gate_sequences]
        comp_first = [layer_sets(layer) for layer in cdesc.gate_sequences]
        _check_description(dev, lay, cdesc, involved, inp.get("index_map"), acc, case,
                           excluded_edges={frozenset(e) for e in comp["exclude_edges"]}, excluded_qubits=set(comp["exclude_gate_qubits"]),
                           dynamic_parking=comp["only_required_parking"], composite=True)
        # evaluating a composite description must neither change the description it is based on nor its own next answer
        acc.count("base_reread_after_composite")
        base_after = [layer_sets(layer) for layer in desc.gate_sequences]
        if base_after != base_before:
            k = next(i for i, (a, b) in enumerate(zip(base_before, base_after)) if a != b)
            acc.finding("derived/base-changed-by-composite", "evaluating a composite description changed the layers of the description it is based on", case,
                        {"layer": k, "before": [list(map(list, base_before[k][0])), base_before[k][1]], "after": [list(map(list, base_after[k][0])), base_after[k][1]]})
            _check_description(dev, lay, desc, involved, inp.get("index_map"), acc, case, excluded_edges=set(), excluded_qubits=set(), dynamic_parking=True)
        if [layer_sets(layer) for layer in cdesc.gate_sequences] != comp_first:
            acc.finding("derived/composite-unstable", "a composite description answers differently when asked again", case, None)
        # a composite that is based on (and reads out) a SUB-chain while its gates are led by the description of the whole segment: its
        # qubits are the union, gates and parks those of the leading gate description (seeded change C17-r13: the qubits contributed by the
        # leading gate description were skipped whenever a leading readout description was set as well)
        if comp.get("small_base") and len(involved) >= 5:
            lo = comp["small_base"][0] % ((len(involved) - 3) // 2 + 1) * 2
            small = involved[lo:lo + 3]
            small_desc = RepetitionCodeDescription.from_connectivity(involved_qubit_ids=[QubitIDObj(q) for q in small], connectivity=lay)
            order = small + [q for q in involved if q not in small]
            cdesc2 = CompositeRepetitionCodeDescription(
                _base_description=small_desc, _qubit_index_map={QubitIDObj(q): i for i, q in enumerate(order)}, _connectivity=lay,
                _leading_readout_description=small_desc, _leading_gate_description=desc,
                _only_required_parking_operations=comp["only_required_parking"])
            acc.count("composites_with_two_leading_descriptions")
            _check_description(dev, lay, cdesc2, order, None, acc, case, excluded_edges=set(), excluded_qubits=set(),
                               dynamic_parking=comp["only_required_parking"], composite=True)


def _check_description(dev: Device, lay, desc, involved: List[str], index_map, acc: Acc, case, excluded_edges: Set[frozenset], excluded_qubits: Set[str],
                       dynamic_parking: bool, composite: bool = False):
    where = "composite description" if composite else "derived description"
    seqs = desc.gate_sequences
    if len(seqs) != lay.gate_sequence_count:
        acc.finding("derived/layer-count", f"{where} has a different number of layers than the layout it was derived from", case, {"got": len(seqs)})
        return
    inv = set(involved)
    # identifier <-> index bijection
    cmap = desc.circuit_channel_map
    want_index = {q: (index_map[q] if index_map else i) for i, q in enumerate(involved)}
    got_index = {qid.id: idx for idx, qid in cmap.items()}
    listed = [q.id for q in desc.qubit_ids]
    if len(cmap) != len(listed) or sorted(got_index) != sorted(set(listed)):
        acc.finding("derived/index-map-not-bijective", f"identifier-to-index map of a {where} is not a bijection over its qubits", case,
                    {"qubits": listed, "map": {str(k): v.id for k, v in cmap.items()}})
    elif any(got_index[q] != want_index[q] for q in listed if q in want_index):
        acc.finding("derived/index-map-wrong", f"identifier-to-index map of a {where} is not the requested one", case, {"got": got_index, "want": want_index})
    if sorted(listed) != sorted(q for q in involved if q in dev.qubits):
        acc.finding("derived/qubits", f"{where} does not consist of exactly the involved qubits", case, {"got": listed})
    for i, layer in enumerate(seqs):
        gates, parks = layer_sets(layer)
        base_gates, base_parks = layer_sets(lay.get_gate_sequence_at_index(i))
        want = [g for g in base_gates if g[0] in inv and g[1] in inv and frozenset(g) not in excluded_edges and not (set(g) & excluded_qubits)]
        if sorted(map(sorted, gates)) != sorted(map(sorted, want)):
            kept_bad = [list(g) for g in gates if not (g[0] in inv and g[1] in inv)]
            sig = "derived/gate-with-uninvolved-qubit" if kept_bad else "derived/gate-filter"
            acc.finding(sig, f"layer of a {where} does not keep exactly the gates whose both qubits are involved (minus exclusions)", case,
                        {"layer": i, "got": [list(g) for g in gates], "want": [list(g) for g in want]})
        check_layer(dev, gates, parks, acc, case, f"{where} layer {i}")
        # index views
        want_pairs = [(got_index.get(g[0]), got_index.get(g[1])) for g in gates]
        if [tuple(p) for p in desc.get_gate_sequence_indices(i)] != want_pairs:
            acc.finding("derived/gate-indices", f"get_gate_sequence_indices of a {where} is not the gate list mapped through the index map", case, {"layer": i})
        want_parks = [got_index[p] for p in parks if p in got_index]
        if list(desc.get_park_sequence_indices(i)) != want_parks:
            acc.finding("derived/park-indices", f"get_park_sequence_indices of a {where} is not the list of parked involved qubits", case,
                        {"layer": i, "got": list(desc.get_park_sequence_indices(i)), "want": want_parks})
    if desc.get_gate_sequence_indices(len(seqs)) is not None or desc.get_park_sequence_indices(-1) is not None:
        acc.finding("derived/index-out-of-range", f"{where} answers a layer index that is out of range", case, None)


def check_generated(dev: Device, rng: random.Random, acc: Acc):
    from qce_circuit.connectivity.mapping.gate_sequence_generator import GateSequenceGenerator
    lib_edges = list(dev.conn.edge_ids)
    n, k = rng.choice([(4, 2), (6, 3), (6, 2), (4, 4), (3, 3)])
    idx = rng.sample(range(len(lib_edges)), n)
    case = {"generated": {"edges": [list(dev.model.edges[i]) for i in idx], "subgroup_size": k}}
    acc.case(bp.phash(case), True, sample=case)
    ident = GateSequenceGenerator(included_edge_ids=[lib_edges[i] for i in idx], connectivity=dev.conn).construct_allowed_gate_sequences(subgroup_size=k)
    acc.count("generator_calls")
    for j in range(min(ident.length, 6)):
        seq = ident.construct_operation_sequence_at(j)
        generic = seq.to_generic_surface_code(dev.conn)
        acc.count("generated_layouts")
        for i in range(generic.gate_sequence_count):
            gates, parks = layer_sets(generic.get_gate_sequence_at_index(i))
            check_layer(dev, gates, parks, acc, case, f"generated layout layer {i}")


def check_program(case: Dict[str, Any], acc: Acc):
    dev = Device()
    if "derived" in case:
        check_derived(dev, case["derived"], acc)
    elif "layout" in case:
        check_shipped(dev, acc)
    else:
        check_generated(dev, random.Random(0), acc)


def run_shard(shard: Dict[str, Any]) -> Acc:
    acc = Acc()
    dev = Device()
    rng = random.Random(shard["seed"])
    if shard["kind"] == "shipped":
        check_shipped(dev, acc)
        return acc
    if shard["kind"] == "generated":
        for _ in range(shard["n"]):
            check_generated(dev, rng, acc)
        return acc
    for i in range(shard["n"]):
        inp = gen_derived(rng)
        acc.hist("mode", inp["mode"] + ("+composite" if inp.get("composite") else ""))
        acc.case(bp.phash(inp), True, sample=inp)
        common.guarded(acc, check_derived, dev, inp, acc, case={"derived": inp})
    return acc


def replay(shard: Dict[str, Any]) -> Acc:
    acc = Acc()
    check_program(shard["case"], acc)
    acc.case("replay", True, sample=shard["case"])
    return acc
