"""C08 — Stim export is the in-order image of the circuit."""
import random
from typing import Any, Dict, List, Optional, Tuple

from qv import bp, gen, model as M, snap, memo_shadow
from qv.acc import Acc
from qv.props import common, libgen

HANDLES_MEMO = True

META = {
    "level": "exploration",
    "technique": "runtime monitoring with an independent translation oracle: exported Stim circuit (split into single-target instructions, REPEAT expanded) vs documented gate table applied to the operation listing",
    "rule": ("build programs over all operation kinds (supported and unsupported by the exporter), nesting and repetition counts, detector / observable / "
             "coordinate-shift annotations with record offsets in every target-shape class; library circuits before/after unrolling; distinct by structural "
             "hash; non-trivial = contains a nested repeated block or an annotation operation"),
    "assumptions": [
        "independent 15-entry gate table written from the documentation; detector/observable record arithmetic re-derived from the field meanings",
        "stim's parser/flattened() is trusted; expected order is the operation listing with sub-circuits expanded in place and repeated their count",
    ],
    "floors": {
        "quick": {"deep_chains_exported": 3, "deep_repeated_bodies_unrolled": 2, "instructions_compared": 40000, "detector_shape_1": 100, "detector_shape_2": 100, "detector_shape_3": 100, "detector_shape_4": 100,
                  "detector_shape_5": 100, "unsupported_omitted": 2000, "before_after_unroll": 3000, "library_before_after": 40, "repeat_blocks": 500, "exports_after_field_edit": 500, "programs_with_zero_count": 100},
        "thorough": {"instructions_compared": 400000, "before_after_unroll": 30000, "library_before_after": 300},
    },
}

GATE_TABLE = {
    "Reset": "R", "Barrier": "TICK", "Hadamard": "H", "Identity": "I", "CPhase": "CZ", "DispersiveMeasure": "M",
    "Rx180": "X", "Rx90": "SQRT_X", "Rxm90": "SQRT_X_DAG", "Ry180": "Y", "Ry90": "SQRT_Y", "Rym90": "SQRT_Y_DAG",
    "DetectorOperation": "DETECTOR", "LogicalObservableOperation": "OBSERVABLE_INCLUDE", "CoordinateShiftOperation": "SHIFT_COORDS",
}
ANNOTATIONS = {"DetectorOperation", "LogicalObservableOperation", "CoordinateShiftOperation"}


def plan(tier: str, seed: int) -> List[Dict[str, Any]]:
    total = 4000 if tier == "quick" else 50000
    shards = common.split_shards("gen", total, 15, seed, 8, classes=["allkinds", "allkinds", "measure", "nested"])
    shards.append({"kind": "library", "n": 60 if tier == "quick" else 400, "seed": common.seed_base(seed, 88), "hashseed": 0})
    for k in range(2 if tier == "quick" else 6):
        shards.append({"kind": "deep", "n": 5, "tier": tier, "seed": common.seed_base(seed, 880 + k), "hashseed": 0})
    return shards


def gen_case(rng: random.Random, cls: str) -> Dict[str, Any]:
    if rng.random() < 0.06:
        # a sub-circuit whose count is 0 is exported 0 times ("repeated their repetition count"); the clauses about unrolling assume
        # counts >= 1 and are skipped for such a program
        prog = gen.gen_program(rng, cls, fields=True, reps=[0, 1, 2], p_sub=0.3, max_depth=2)
        prog["has_zero_count"] = True
        return prog
    return gen.gen_program(rng, cls, fields=True, reps=[1, 1, 2, 3], p_sub=0.25, max_depth=2)


# ---- independent translation ---------------------------------------------------------------------------

def detector_shape(op) -> int:
    m, s, r, so = op.main_target, op.secondary_target, op.reference_offset, op.secondary_offset
    if m is None:
        return 0
    if s is None:
        return 1 if r is None else 2
    if r is None:
        return 3
    return 4 if so is None else 5


def translate(op, acc: Optional[Acc] = None) -> List[Tuple]:
    """Expected single-target instructions of one leaf operation (empty when the exporter does not support the kind)."""
    kind = type(op).__name__
    name = GATE_TABLE.get(kind)
    if name is None:
        if acc is not None:
            acc.count("unsupported_omitted")
        return []
    if kind == "Barrier":
        return [("TICK", (), ())]
    if kind == "CoordinateShiftOperation":
        return [("SHIFT_COORDS", (), (float(op.space_shift), float(op.time_shift)))]
    if kind == "DetectorOperation":
        shape = detector_shape(op)
        if acc is not None:
            acc.count(f"detector_shape_{shape}")
        if shape == 0:
            return [("DETECTOR", (), ())]
        base = op.main_target - (op.last_acquisition_index + 1)
        if shape == 1:
            recs = [base]
        elif shape == 2:
            recs = [base, base - op.reference_offset]
        else:
            sec = op.secondary_target - (op.last_acquisition_index + 1)
            if shape == 3:
                recs = [base, sec]
            elif shape == 4:
                recs = [base, sec, -op.reference_offset]
            else:
                recs = [base, sec, -op.reference_offset, -op.reference_offset - op.secondary_offset]
        return [("DETECTOR", tuple(("rec", r) for r in recs), (float(op.qubit_index), 0.0))]
    if kind == "LogicalObservableOperation":
        if op.last_acquisition_index is not None and op.main_target is not None:
            return [("OBSERVABLE_INCLUDE", (("rec", op.main_target - (op.last_acquisition_index + 1)),), (0.0,))]
        return [("OBSERVABLE_INCLUDE", (), (0.0,))]
    if kind == "CPhase":
        return [("CZ", (op.control_qubit_index, op.target_qubit_index), ())]
    return [(name, (op.qubit_index,), ())]


def expected_stream(composite, acc: Optional[Acc] = None) -> List[Tuple]:
    out: List[Tuple] = []
    for op in snap.walk_nodes(composite):
        if snap.is_composite(op):
            body = expected_stream(op, acc)
            n = op.nr_of_repetitions
            if acc is not None and n >= 2:
                acc.count("repeat_blocks")
            out.extend(body * n)
        else:
            out.extend(translate(op, acc))
    return out


def stim_stream(circuit) -> List[Tuple]:
    """Exported circuit as single-target instructions with REPEAT blocks expanded (SHIFT_COORDS kept)."""
    import stim
    out: List[Tuple] = []
    for inst in circuit:
        if isinstance(inst, stim.CircuitRepeatBlock):
            out.extend(stim_stream(inst.body_copy()) * inst.repeat_count)
            continue
        name = inst.name
        args = tuple(float(a) for a in inst.gate_args_copy())
        targets = inst.targets_copy()
        if name in ("DETECTOR", "OBSERVABLE_INCLUDE"):
            out.append((name, tuple(("rec", t.value) for t in targets), args))
        elif name in ("TICK", "SHIFT_COORDS"):
            out.append((name, (), args))
        elif name == "CZ":
            vals = [t.value for t in targets]
            for k in range(0, len(vals), 2):
                out.append((name, (vals[k], vals[k + 1]), args))
        else:
            for t in targets:
                out.append((name, (t.value,), args))
    return out


def export(circuit, acc: Acc, case, label: str):
    from qce_circuit.addon_stim.factory_manager import to_stim
    try:
        return to_stim(circuit)
    except Exception as exc:
        acc.finding("export/raises", f"to_stim raises {type(exc).__name__} for a circuit the API can build ({label})", case, {"error": str(exc)[:200]})
        return None


def compare(acc: Acc, case, label: str, got: List[Tuple], want: List[Tuple]):
    acc.count("instructions_compared", len(want))
    if got == want:
        return
    if sorted(map(repr, got)) == sorted(map(repr, want)):
        k = next(i for i, (a, b) in enumerate(zip(got, want)) if a != b)
        acc.finding("export/order", f"exported instructions are not in listing order ({label})", case, {"pos": k, "exported": got[k], "expected": want[k]})
        return
    only_a, only_b = snap.multiset_diff(got, want)
    name = (only_b or only_a)[0][0]
    acc.finding(f"export/instruction/{name}", f"exported instructions differ from the documented translation of the listing ({label})", case,
                {"only_exported": only_a[:4], "only_expected": only_b[:4]})


def kinds_census(built, acc: Acc, case) -> None:
    """The operations the exporter walks are the ones the build program added (kind by kind): an exporter can only be 'the image
    of the circuit' if the circuit it is handed still is the build program (copies made while nesting keep every kind)."""
    from collections import Counter
    lib = Counter(type(o).__name__ for o in snap.walk_leaves(built.top.circuit.circuit_structure))
    mod = Counter(n.kind for n, _, _ in M.leaf_records(built.top.mnodes, built.ctx.S, 0.0))
    acc.count("kind_census_checks")
    if lib != mod:
        acc.finding("export/circuit-differs-from-build-program", "the circuit handed to the exporter does not hold the operation kinds the build program added", case,
                    {"only_circuit": dict(lib - mod), "only_program": dict(mod - lib)})


def check_program(prog: Dict[str, Any], acc: Acc, flags=None):
    flags = flags if flags is not None else {}
    ctx = bp.Ctx(prog.get("settings"))
    case = {"program": prog}
    st = bp.stats(prog["circuit"])
    flags["nontrivial"] = (st["blocks"] > 0 and st["max_reps"] >= 2) or c05_has_annotation(prog["circuit"])
    with ctx.global_override():
        built = bp.build(prog, ctx)
        circuit = built.top.circuit
        kinds_census(built, acc, case)
        sc = export(circuit, acc, case, "as built")
        if sc is None:
            return
        want = expected_stream(circuit.circuit_structure, acc)
        got = stim_stream(sc)
        compare(acc, case, "as built", got, want)
        # the public listing is the same in-place expansion (ties the oracle to the listing, not to the graph walk)
        leaves = snap.walk_leaves(circuit.circuit_structure)
        ops = circuit.operations
        if len(leaves) != len(ops) or any(a is not b for a, b in zip(leaves, ops)):
            acc.finding("export/listing-vs-structure", "operation listing is not the in-place expansion of the structure the exporter walks", case, None)
        # an exported circuit whose (public, mutable) annotation fields are edited afterwards exports the edited listing
        shifts = [o for o in ops if type(o).__name__ == "CoordinateShiftOperation"]
        if shifts:
            for o in shifts:
                o.time_shift = int(o.time_shift) + 1
                o.space_shift = int(o.space_shift) + 2
            acc.count("exports_after_field_edit")
            sc_e = export(circuit, acc, case, "after editing coordinate shifts")
            if sc_e is None:
                return
            got = stim_stream(sc_e)
            compare(acc, case, "after editing coordinate shifts", got, expected_stream(circuit.circuit_structure, None))
            sc = sc_e
        if prog.get("has_zero_count"):
            acc.count("programs_with_zero_count")
            return
        if prog.get("deep") and _unrolled_size(prog["circuit"]) > 280:
            # relation chains beyond ~300 operations cannot be unrolled (copying recurses through the by-value hash of the chain): the
            # as-built export above is what a deep chain is checked on
            acc.count("deep_chains_exported")
            acc.count("deep_chain_operations", len(ops))
            memo_shadow.drain()
            return
        # before / after unrolling: same multiset of instructions, same number of measurements
        n_meas = sc.num_measurements
        top_reps = circuit.circuit_structure.nr_of_repetitions
        modified = circuit.apply_modifiers()
        sc2 = export(modified, acc, case, "unrolled")
        if sc2 is None:
            return
        acc.count("before_after_unroll")
        if prog.get("deep"):
            acc.count("deep_repeated_bodies_unrolled")
        got2 = stim_stream(sc2)
        want2 = got * top_reps       # the top-level count is not exported before unrolling (only sub-circuits are repeated)
        if sorted(map(repr, got2)) != sorted(map(repr, want2)):
            only_a, only_b = snap.multiset_diff(got2, want2)
            acc.finding("export/unroll-changes-instructions", "exporting after unrolling gives a different multiset of instructions", case,
                        {"only_unrolled": only_a[:4], "only_before": only_b[:4]})
        if sc2.num_measurements != n_meas * top_reps:
            acc.finding("export/unroll-changes-measurements", "exporting after unrolling gives a different number of measurements", case,
                        {"before": n_meas, "after": sc2.num_measurements})
        compare(acc, case, "unrolled", got2, expected_stream(modified.circuit_structure, None))
    memo_shadow.drain()


def _unrolled_size(circ: Dict[str, Any]) -> int:
    r = circ.get("reps", 1)
    r = r if isinstance(r, int) else 3
    return max(1, r) * sum(_unrolled_size(st["sub"]) if "sub" in st else 1 for st in circ["steps"])


def gen_deep(rng: random.Random, tier: str, index: int = 0) -> Dict[str, Any]:
    """Deep shapes (seeded changes C08-r12 / C09-r12: the graph walk's safety bound lowered, everything deeper silently dropped): one
    relation chain of hundreds to thousands of exportable operations, or a short body repeated until the unrolled chain is > 200 deep."""
    kinds = ["Rx180", "Ry90", "Rym90", "Identity", "DispersiveMeasure", "Reset", "Rx90"]

    def leaf(nq):
        k = rng.choice(kinds)
        st = {"k": k, "q": [rng.randrange(nq)]}
        if k == "DispersiveMeasure":
            st["tag"] = ""
        return st

    if index % 5 in (1, 3):
        body = rng.choice([2, 3])
        reps = rng.randint(210 // body + 1, 270 // body)
        circ = {"reps": 1, "steps": [leaf(1), {"sub": {"reps": reps, "steps": [leaf(1) for _ in range(body)]}}, leaf(1)]}
    else:
        length = rng.choice([250, 600, 1500] + ([4000] if tier == "thorough" else [2500]))
        nq = rng.choice([1, 1, 2])
        circ = {"reps": 1, "steps": [leaf(nq) for _ in range(length)]}
    return {"class": "deep", "deep": True, "circuit": circ, "settings": {}}


def c05_has_annotation(circ: Dict[str, Any]) -> bool:
    for st in circ["steps"]:
        if "sub" in st:
            if c05_has_annotation(st["sub"]):
                return True
        elif st["k"] in ANNOTATIONS:
            return True
    return False


def check_library(inp: Dict[str, Any], acc: Acc):
    from qce_circuit.addon_stim.factory_manager import to_stim
    case = {"library": inp}
    circuit = libgen.construct(inp)
    sc = to_stim(circuit)
    want = expected_stream(circuit.circuit_structure, acc)
    compare(acc, case, "library as built", stim_stream(sc), want)
    modified = circuit.apply_modifiers()
    sc2 = to_stim(modified)
    acc.count("library_before_after")
    if sc.flattened() != sc2.flattened():
        acc.finding("export/library-program-changes", "library circuit exports a different program (Stim flattened form) after unrolling", case,
                    {"num_measurements": [sc.num_measurements, sc2.num_measurements], "num_detectors": [sc.num_detectors, sc2.num_detectors]})
    if stim_stream(sc) != stim_stream(sc2):
        acc.finding("export/library-instruction-order", "library circuit exports its instructions in a different order after unrolling", case, None)
    memo_shadow.drain()


def run_shard(shard: Dict[str, Any]) -> Acc:
    acc = Acc()
    rng = random.Random(shard["seed"])
    if shard["kind"] == "library":
        for i in range(shard["n"]):
            inp = libgen.gen_repcode_input(rng, max_distance=4, max_cycles=8, composite_p=0.3)
            acc.hist("class", "library/" + inp["constructor"])
            acc.case(bp.phash(inp), inp["cycles"] >= 2, sample=inp if i < 3 else None)
            common.guarded(acc, check_library, inp, acc, case={"library": inp})
        return acc
    if shard["kind"] == "deep":
        for i in range(shard["n"]):
            prog = gen_deep(rng, shard.get("tier", "quick"), i)
            acc.hist("class", "deep")
            acc.case(bp.phash(prog), True, sample=None)
            common.guarded(acc, check_program, prog, acc, {}, case={"program": prog})
        return acc
    classes = shard["classes"]
    for i in range(shard["n"]):
        cls = classes[i % len(classes)]
        prog = gen_case(rng, cls)
        acc.hist("class", cls)
        flags: Dict[str, Any] = {}
        common.guarded(acc, check_program, prog, acc, flags, case={"program": prog})
        acc.case(bp.phash(prog), bool(flags.get("nontrivial")), sample=prog if i < 40 else None)
    return acc


def replay(shard: Dict[str, Any]) -> Acc:
    acc = Acc()
    case = shard["case"]
    if "library" in case:
        check_library(case["library"], acc)
    else:
        check_program(case["program"], acc)
    acc.case("replay", True, sample=case)
    return acc
