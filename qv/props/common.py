"""Shared oracles used by several property modules."""
import os
import random
from typing import Any, Dict, List, Optional, Tuple

from qv import bp, gen, model as M, snap, memo_shadow, shrink
from qv.acc import Acc

TOL = 1e-7


def seed_base(seed: int, salt: int) -> int:
    return (seed * 1_000_003 + salt * 7919) & 0x7FFFFFFF


def split_shards(kind: str, total: int, nshards: int, seed: int, salt: int, **extra) -> List[Dict[str, Any]]:
    per = max(1, total // nshards)
    out = []
    for i in range(nshards):
        out.append({"kind": kind, "n": per, "seed": seed_base(seed, salt) + i * 104729, "hashseed": 0, "index": i, **extra})
    return out


def records_lib(ops, times) -> List[Tuple]:
    return [snap.rec(snap.op_sig(op), s, e) for op, (s, e) in zip(ops, times)]


def records_model(level: List[M.MNode], S: M.Settings) -> List[Tuple]:
    return [snap.rec(M.sig(n, S), s, e) for n, s, e in M.leaf_records(level, S, 0.0)]


def actual_blocks(built: bp.Built) -> Dict[Tuple[int, ...], Any]:
    """path of a block step -> the composite object that holds it inside the top-level circuit.

    Sub-circuits are copied when added, so the handles kept for a nested level belong to the original child
    circuit; the object inside the parent is found by position (copies preserve the node order of the source).
    """
    out: Dict[Tuple[int, ...], Any] = {}

    def rec(level: bp.Level, actual):
        src_nodes = snap.walk_nodes(level.circuit.circuit_structure)
        act_nodes = snap.walk_nodes(actual)
        if len(src_nodes) != len(act_nodes):
            return
        pos = {id(op): k for k, op in enumerate(src_nodes)}
        for i, child in enumerate(level.children):
            if child is None:
                continue
            k = pos.get(id(level.handles[i]))
            if k is None:
                continue
            out[child.path] = act_nodes[k]
            rec(child, act_nodes[k])

    rec(built.top, built.top.circuit.circuit_structure)
    return out


def model_block(built: bp.Built, path: Tuple[int, ...]) -> M.MNode:
    level = built.top.mnodes
    node = None
    for i in path:
        node = level[i]
        level = node.sub
    return node


def block_duration_mismatches(built: bp.Built) -> List[Dict[str, Any]]:
    """Blocks whose reported duration (memo-free evaluation) differs from the model span, labelled by model predicate."""
    S = built.ctx.S
    out = []
    for path, comp in actual_blocks(built).items():
        mn = model_block(built, path)
        want = M.duration(mn, S)
        got = snap.shadow_value(lambda: float(comp.duration))
        if abs(got - want) > TOL:
            out.append({"path": list(path), "reported": got, "model": want, "label": duration_label(mn, S)})
    return out


def duration_label(block: M.MNode, S: M.Settings) -> str:
    """Model predicate describing why a block's span is not given by heads/leaves alone."""
    level = block.sub
    times = M.level_times(level, S, 0.0)
    recs = M.leaf_records(level, S, 0.0)
    if not recs:
        return "empty"
    lo = min(r[1] for r in recs)
    hi = max(r[2] for r in recs)
    labels = []
    nested_early = False
    for n in level:
        if n.is_block:
            sub = M.leaf_records(n.sub, S, times[id(n)][0])
            if sub and min(r[1] for r in sub) < times[id(n)][0] - TOL:
                nested_early = True
    if nested_early:
        labels.append("nested-block-early-start")
    leaf_hi = max((times[id(n)][1] for n in level if n.nchildren == 0), default=0.0)
    if leaf_hi < hi - TOL:
        labels.append("non-leaf-last-end")
    if lo < -TOL:
        labels.append("early-start")
    return "+".join(labels) if labels else "plain"


def compare_times(built: bp.Built, acc: Acc, phase: str, level_model: List[M.MNode], case: Dict[str, Any],
                  circuit=None, prefix: str = "") -> Dict[str, Any]:
    """Raw / shadow / model comparison of the whole listing (multiset of (signature, start, end))."""
    S = built.ctx.S
    circuit = circuit if circuit is not None else built.top.circuit
    ops = circuit.operations
    acc.count("operations_observed", len(ops))
    raw = snap.raw_times(ops)
    sh = snap.shadow_times(ops)
    A = records_lib(ops, raw)
    H = records_lib(ops, sh)
    B = records_model(level_model, S)
    acc.count("time_triples_compared", len(ops))
    only_a, only_b = snap.multiset_diff(A, B)
    info = {"ops": ops, "raw": raw, "shadow": sh, "ok": not (only_a or only_b)}
    # end == start + duration on raw values
    for op, (s, e) in zip(ops, raw):
        if abs((s + float(op.duration)) - e) > TOL:
            acc.finding(prefix + "equation/end=start+duration", f"{type(op).__name__} end != start + duration ({phase})", case,
                        {"start": s, "end": e, "duration": float(op.duration)})
    if only_a or only_b:
        sig_only_a, sig_only_b = snap.multiset_diff([a[0] for a in A], [b[0] for b in B])
        if sig_only_a or sig_only_b:
            acc.finding(prefix + f"listing/content-{phase}", f"listing content differs from the program ({phase})", case,
                        {"only_library": sig_only_a[:4], "only_model": sig_only_b[:4]})
            return info
        h_a, h_b = snap.multiset_diff(H, B)
        if not (h_a or h_b):
            acc.finding(prefix + f"stale-memo/{phase}", f"reported times differ from the memo-free evaluation and the model ({phase})",
                        case, {"only_library": only_a[:4], "only_model": only_b[:4]})
        else:
            labels = sorted({d["label"] for d in block_duration_mismatches(built)}) if phase == "built" else []
            if labels:
                sig = prefix + "block-duration/" + "|".join(labels)
                what = "a sub-circuit's duration differs from the span of its content, shifting its followers (" + ",".join(labels) + ")"
            else:
                sig = prefix + f"timing/{phase}"
                what = f"reported times differ from the relation equations ({phase})"
            acc.finding(sig, what, case, {"only_library": only_a[:4], "only_model": only_b[:4]})
    return info


def local_equations(ops, raw, acc: Acc, case: Dict[str, Any], phase: str, prefix: str = ""):
    """Every listed operation satisfies its own relation equation w.r.t. the operation its link references."""
    index = {id(op): i for i, op in enumerate(ops)}
    for i, op in enumerate(ops):
        li = snap.link_info(op)
        s, e = raw[i]
        d = e - s
        if li["kind"] == "single":
            ref = li["ref"]
            if ref is None:
                acc.count("eq_norelation")
                if abs(s) > TOL:
                    acc.finding(prefix + "equation/no-relation", f"unrelated operation does not start at the circuit start ({phase})", case,
                                {"op": type(op).__name__, "start": s})
                continue
            j = index.get(id(ref))
            if j is not None:
                rs, re_ = raw[j]
                if j >= i:
                    acc.finding(prefix + "listing/causality", f"operation listed before the operation its relation refers to ({phase})", case,
                                {"op": type(op).__name__, "pos": i, "ref_pos": j})
            else:
                rs, re_ = snap.raw_value(lambda: (float(ref.start_time), float(ref.end_time)))
            t = li["type"]
            acc.count("eq_" + t)
            want = re_ if t == "FOLLOWED_BY" else rs if t == "JOINED_START" else re_ - d
            if abs(s - want) > TOL:
                acc.finding(prefix + f"equation/{t}", f"{t} equation violated ({phase})", case,
                            {"op": type(op).__name__, "start": s, "expected": want})
        elif li["kind"] == "multi":
            acc.count("eq_multi")
            refs = li["refs"]
            if refs:
                want = max(raw[index[id(r)]][1] if id(r) in index else snap.raw_value(lambda: float(r.end_time)) for r in refs)
                if abs(s - want) > TOL:
                    acc.finding(prefix + "equation/latest-of-group", f"copy does not start at the end of the latest leaf before it ({phase})", case,
                                {"op": type(op).__name__, "start": s, "expected": want})


def program_nontrivial_c01(prog: Dict[str, Any]) -> bool:
    st = bp.stats(prog["circuit"])
    if st["joined"] > 0:
        return True
    if st["blocks"] > 0 and st["max_reps"] >= 2:
        return True
    return _zero_ref(prog["circuit"])


def _zero_ref(circ: Dict[str, Any]) -> bool:
    from qv.kinds import SPEC
    steps = circ["steps"]
    for st in steps:
        if "sub" in st:
            if _zero_ref(st["sub"]):
                return True
            continue
        rel = st.get("rel")
        if rel:
            ref = steps[rel[1]]
            if "sub" not in ref:
                sp = SPEC.get(ref["k"], {})
                if ref.get("dur") == 0 or sp.get("dur") == ("fixed", 0.0):
                    return True
    return False


class CaseBudgetExceeded(BaseException):
    """Raised by the per-case alarm (BaseException: library code catching Exception must not swallow it)."""


def libgen_not_constructible():
    from qv.props import libgen
    return libgen.CompositeNotConstructible


def guarded(acc: Acc, fn, *args, case=None) -> bool:
    """Run one case.  A RecursionError (relation chains beyond the interpreter's recursion limit) is a resource limit of the
    library's recursive time evaluation, not a verdict: counted as inconclusive, the shard continues.  Any other exception
    escaping the case (the library raising on a valid input, or handing the oracle a structure it cannot even read) is a
    finding with the exception type as mechanism key - on the unchanged tree no case raises."""
    import traceback
    import signal
    import threading
    budget = int(os.environ.get("VERIF_CASE_SECONDS", "60"))
    use_alarm = budget > 0 and threading.current_thread() is threading.main_thread() and hasattr(signal, "SIGALRM")
    if use_alarm:
        def _expired(signum, frame):
            raise CaseBudgetExceeded()
        previous = signal.signal(signal.SIGALRM, _expired)
        signal.alarm(budget)
    try:
        fn(*args)
        return True
    except CaseBudgetExceeded:
        # one case that runs away (memo-free re-evaluation of a pathological structure is exponential) is inconclusive for
        # that case - counted, never a verdict - and must not starve the rest of the shard into the run's watchdog
        acc.count("case_budget_inconclusive")
        return False
    except RecursionError:
        acc.count("recursion_inconclusive")
        return False
    except libgen_not_constructible() as exc:
        # a composite description whose exclusions leave nothing to build: the constructor rejects it, no circuit is produced
        acc.count("composite_not_constructible")
        return False
    except Exception as exc:  # noqa: BLE001
        if use_alarm:
            signal.alarm(0)
        tb = traceback.extract_tb(exc.__traceback__)
        where = next((f"{fr.filename.rsplit('/', 1)[-1]}:{fr.name}" for fr in reversed(tb) if "qce_circuit" in fr.filename), "harness")
        acc.finding(f"exception/{type(exc).__name__}", f"{type(exc).__name__} while checking a valid case (raised in {where}): {str(exc)[:160]}",
                    case if case is not None else {"args": repr(args[0])[:2000]}, {"traceback": [f"{fr.filename.rsplit('/', 1)[-1]}:{fr.lineno}:{fr.name}" for fr in tb[-6:]]})
        return False
    finally:
        if use_alarm:
            signal.alarm(0)
            signal.signal(signal.SIGALRM, previous)
