"""C19 — Channel and identifier matching behave as overlap / identity relations."""
import itertools
import random
from typing import Any, Dict, List

from qv import bp
from qv.acc import Acc
from qv.props import common

META = {
    "level": "exploration",
    "technique": "runtime monitoring, exhaustive over small domains: every pair/triple of channel identifiers, every ordered pair of qubit and edge identifiers, seeded sequences for de-duplication, each compared with the relation stated in the property",
    "rule": ("EXHAUSTIVE: channel identifiers over 4 qubit ids x 4 channels (all 256 ordered pairs, all 4,096 triples), all ordered pairs of the 17 Surface-17 "
             "qubit identifiers and 13 look-alike names (900) and of edges between two different qubits in both orientations, list-membership semantics; plus 4k/40k seeded "
             "sequences (length <= 30, alphabet <= 6, mixed hashable types) for unique_in_order; a case is one tuple of identifiers; non-trivial = involves the ALL "
             "channel, a reversed edge, or a sequence with a repeated element"),
    "assumptions": ["the relations are the ones in the statement; Python's dict.fromkeys defines 'first occurrence of every element'"],
    "exhaustive": {"quick": True, "thorough": True},
    "floors": {
        "quick": {"channel_pairs": 256, "channel_pairs_large_index": 400, "channel_triples": 4096, "qubit_pairs": 900, "qubit_lookalike_pairs": 10, "edge_handed_list_edits": 200, "edge_pairs": 20000, "sequences": 3900, "channel_identifier_sequences": 250},
        "thorough": {"channel_pairs": 256, "channel_pairs_large_index": 400, "channel_triples": 4096, "edge_pairs": 60000, "sequences": 39000},
    },
}


def plan(tier: str, seed: int) -> List[Dict[str, Any]]:
    shards = [{"kind": "channels", "hashseed": 0, "seed": 0}, {"kind": "qubits", "hashseed": 0, "seed": 0}]
    for i in range(4):
        shards.append({"kind": "edges", "part": i, "parts": 4, "hashseed": i % 3, "seed": 0, "tier": tier})
    n = 4000 if tier == "quick" else 40000
    for i in range(4):
        shards.append({"kind": "sequences", "n": n // 4, "seed": common.seed_base(seed, 190 + i), "hashseed": i % 3})
    return shards


def run_channels(acc: Acc):
    from qce_circuit.structure.intrf_circuit_operation import ChannelIdentifier, QubitChannel
    chans = list(QubitChannel)
    ids = [ChannelIdentifier(_id=i, _channel=c) for i in range(4) for c in chans]

    def want(a, b) -> bool:
        return a.id == b.id and (a.channel == b.channel or a.channel == QubitChannel.ALL or b.channel == QubitChannel.ALL)

    for a, b in itertools.product(ids, ids):
        acc.count("channel_pairs")
        nontrivial = QubitChannel.ALL in (a.channel, b.channel)
        case = {"a": repr(a), "b": repr(b)}
        acc.case(repr((a, b)), nontrivial, sample=case if nontrivial else None)
        got = (a == b)
        if got != want(a, b):
            sig = "channel/across-qubits" if a.id != b.id else ("channel/all-not-matching" if nontrivial else "channel/match")
            acc.finding(sig, "channel identifiers match although they should not (or vice versa)", case, {"library": got, "expected": want(a, b)})
        if (a == b) != (b == a):
            acc.finding("channel/not-symmetric", "channel matching is not symmetric", case, None)
        if (a != b) == (a == b):
            acc.finding("channel/ne-inconsistent", "!= is not the negation of ==", case, None)
        if (a in [b]) != want(a, b):
            acc.finding("channel/membership", "list membership does not follow the matching relation", case, None)
    for a, b, c in itertools.product(ids, ids, ids):
        acc.count("channel_triples")
        # 'any element of xs in ys' as used by the implicit sequencing
        got = any(x in [b, c] for x in [a])
        if got != (want(a, b) or want(a, c)):
            acc.finding("channel/membership", "membership in a list of two identifiers does not follow the matching relation", {"a": repr(a), "b": repr(b), "c": repr(c)}, None)
    # the same relation for large qubit indices whose int objects are created independently (no small-int sharing, no literal
    # sharing): "names the same qubit" is about the VALUE of the index
    base = int("250")
    big = [base + k for k in (0, 7, 750, 10 ** 6, 2 ** 40)]
    for x, y in itertools.product(big, repeat=2):
        for ca, cb in itertools.product(chans, chans):
            a = ChannelIdentifier(_id=int(str(x)), _channel=ca)
            b = ChannelIdentifier(_id=int(str(y)) + 0, _channel=cb)
            acc.count("channel_pairs_large_index")
            if (a == b) != want(a, b) or (b == a) != want(a, b) or (a in [b]) != want(a, b):
                acc.finding("channel/match-large-index", "channel identifiers with large qubit indices do not follow the matching relation", {"a": repr(a), "b": repr(b)},
                            {"library": a == b, "expected": want(a, b)})
    for a in ids:
        if a == (a.id, a.channel) or a == "x" or (a == None):  # noqa: E711
            acc.finding("channel/foreign-type", "a channel identifier equals an object of a different type", {"a": repr(a)}, None)


def run_qubits(acc: Acc):
    from qce_circuit.connectivity.intrf_channel_identifier import QubitIDObj
    from qv.props import c16
    # the 17 device names plus look-alikes: names differing only in letter case, padding, leading zeros, surrounding blanks,
    # unicode look-alike, empty name ("equal exactly when their names are" is about the names as given)
    names = sorted(c16.SPEC_LEVELS) + ["d1", "x1", "z4", "D01", "D1 ", " D1", "D10", "D", "", "Q0", "q0", "\u0044\u0031\u200b", "D1\n"]
    for x, y in itertools.product(names, names):
        a, b = QubitIDObj(x), QubitIDObj(y)
        acc.count("qubit_pairs")
        if x != y and x.strip().lower() == y.strip().lower():
            acc.count("qubit_lookalike_pairs")
        case = {"a": x, "b": y}
        acc.case("q" + x + y, x == y, sample=case if x == y else None)
        if (a == b) != (x == y):
            acc.finding("qubit/equality", "qubit identifiers are equal although their names differ (or vice versa)", case, None)
        if a == b and hash(a) != hash(b):
            acc.finding("qubit/hash", "equal qubit identifiers hash differently", case, None)
        if (a == b) != (b == a):
            acc.finding("qubit/not-symmetric", "qubit identifier equality is not symmetric", case, None)
        if ({a: 1}.get(b) == 1) != (x == y) or ((b in {a}) != (x == y)):
            acc.finding("qubit/dict-lookup", "dict/set lookup of a qubit identifier does not follow name equality", case, None)
    if QubitIDObj("D1") == "D1":
        acc.finding("qubit/foreign-type", "a qubit identifier equals a plain string", {"a": "D1"}, None)


def run_edges(acc: Acc, shard: Dict[str, Any]):
    from qce_circuit.connectivity.intrf_channel_identifier import QubitIDObj, EdgeIDObj
    from qv.props import c16
    names = sorted(c16.SPEC_LEVELS)
    if shard.get("tier") == "quick":
        names = names[:10]
    # names any caller may use: containing the separator of the edge's printed form, differing only in case, partly overlapping
    names = names + ["q-0", "q-1", "a-b", "a", "b", "d1", "D1-X1"]
    # an edge connects two (different) qubits: self-loops are outside the property's domain
    pairs = [(a, b) for a, b in itertools.product(names, names) if a != b]
    k = 0
    for (a0, a1) in pairs:
        ea = EdgeIDObj(QubitIDObj(a0), QubitIDObj(a1))
        for (b0, b1) in pairs:
            k += 1
            if k % shard["parts"] != shard["part"]:
                continue
            eb = EdgeIDObj(QubitIDObj(b0), QubitIDObj(b1))
            acc.count("edge_pairs")
            want = {a0, a1} == {b0, b1}
            reversed_pair = want and (a0, a1) != (b0, b1)
            case = {"a": [a0, a1], "b": [b0, b1]}
            acc.case(f"e{a0}{a1}{b0}{b1}", reversed_pair, sample=case if reversed_pair else None)
            got = (ea == eb)
            if got != want:
                acc.finding("edge/equality", "edge identifiers compare equal although they connect different qubits (or vice versa)", case,
                            {"library": got, "expected": want})
            if got and hash(ea) != hash(eb):
                acc.finding("edge/hash", "equal edge identifiers hash differently", case, None)
            if (ea == eb) != (eb == ea):
                acc.finding("edge/not-symmetric", "edge identifier equality is not symmetric", case, None)
            if want and (({ea: 1}.get(eb) != 1) or (eb not in {ea}) or (eb not in [ea])):
                acc.finding("edge/dict-lookup", "an edge is not found under its reversed orientation in a dict/set/list", case, None)
        if ea.contains(QubitIDObj(a0)) is not True or ea.get_connected_qubit_id(QubitIDObj(a0)).id != a1:
            acc.finding("edge/contains", "edge does not contain / connect its own qubits", {"a": [a0, a1]}, None)
        # what the identifier hands out is a fresh list: editing it must not change the identifier
        handed = ea.qubit_ids
        if isinstance(handed, list) and handed:
            handed.remove(handed[0])
            handed.append(QubitIDObj("zz"))
            acc.count("edge_handed_list_edits")
            fresh = EdgeIDObj(QubitIDObj(a1), QubitIDObj(a0))
            if not (ea == fresh and fresh == ea and ea == ea and hash(ea) == hash(fresh) and ea.contains(QubitIDObj(a0)) and ea.contains(QubitIDObj(a1))
                    and sorted(q.id for q in ea.qubit_ids) == sorted([a0, a1])):
                acc.finding("edge/changed-by-caller", "editing the list returned by qubit_ids changed the edge identifier (equality / contains / qubit_ids)", {"a": [a0, a1]}, None)
        for other in names:
            if other not in (a0, a1) and ea.contains(QubitIDObj(other)):
                acc.finding("edge/contains", "edge claims to contain a qubit it does not connect", {"a": [a0, a1], "other": other}, None)
                break


def run_sequences(acc: Acc, shard: Dict[str, Any]):
    from qce_circuit.utilities.array_manipulation import unique_in_order
    from qce_circuit.connectivity.intrf_channel_identifier import QubitIDObj, EdgeIDObj
    from qce_circuit.structure.intrf_circuit_operation import ChannelIdentifier, QubitChannel
    rng = random.Random(shard["seed"])
    pools = [
        lambda: list(range(6)),
        lambda: ["a", "b", "c", "d", "e", "f"],
        lambda: [0, "0", (0,), 1.5, None, frozenset([1])],
        lambda: [QubitIDObj(n) for n in ("D1", "D2", "Z1", "X1", "D1", "Z1")],
        lambda: [EdgeIDObj(QubitIDObj("D1"), QubitIDObj("Z1")), EdgeIDObj(QubitIDObj("Z1"), QubitIDObj("D1")), EdgeIDObj(QubitIDObj("D2"), QubitIDObj("Z1")), "x", 3, (1, 2)],
        lambda: [1, 1.0, True, 2, 2.0, "1"],
        # channel identifiers, the elements the library itself de-duplicates (CircuitGraphBranch.channel_identifiers): the ALL wildcard is
        # equal to, but hashed differently from, the specific channels of its qubit - whatever is kept, the ORDER of the kept elements is the
        # input order (seeded change C19-r12: sorted(set(xs), key=xs.index) moves a wildcard ahead of another qubit's identifier)
        lambda: [ChannelIdentifier(_id=0, _channel=QubitChannel.MICROWAVE), ChannelIdentifier(_id=1, _channel=QubitChannel.MICROWAVE),
                 ChannelIdentifier(_id=0, _channel=QubitChannel.ALL), ChannelIdentifier(_id=1, _channel=QubitChannel.FLUX),
                 ChannelIdentifier(_id=2, _channel=QubitChannel.ALL), ChannelIdentifier(_id=0, _channel=QubitChannel.FLUX)],
    ]
    for i in range(shard["n"]):
        pool = rng.choice(pools)()
        if isinstance(pool[0], ChannelIdentifier):
            rng.shuffle(pool)
            acc.count("channel_identifier_sequences")
        size = rng.randint(1, len(pool))
        alphabet = pool[:size]
        xs = [rng.choice(alphabet) for _ in range(rng.randint(0, 30))]
        acc.count("sequences")
        want = list(dict.fromkeys(xs))
        got = unique_in_order(xs)
        case = {"sequence": [repr(x) for x in xs]}
        acc.case(bp.phash(case), len(want) < len(xs), sample=case)
        # "keeps the first occurrence": the kept element IS the first of its equals (same object: equal elements may still differ in
        # orientation, type or identity)
        if len(got) != len(want) or any(a is not b for a, b in zip(got, want)):
            acc.finding("unique-in-order/wrong", "unique_in_order does not keep exactly the first occurrence of every element in order", case,
                        {"got": [repr(x) for x in got], "expected": [repr(x) for x in want]})
        if xs and list(unique_in_order(iter(xs))) != got:
            acc.finding("unique-in-order/iterator", "unique_in_order gives a different result for an iterator", case, None)


def run_shard(shard: Dict[str, Any]) -> Acc:
    acc = Acc()
    kind = shard["kind"]
    if kind == "channels":
        run_channels(acc)
    elif kind == "qubits":
        run_qubits(acc)
    elif kind == "edges":
        run_edges(acc, shard)
    else:
        run_sequences(acc, shard)
    return acc


def replay(shard: Dict[str, Any]) -> Acc:
    acc = Acc()
    run_channels(acc)
    run_qubits(acc)
    run_edges(acc, {"part": 0, "parts": 1, "tier": "quick"})
    run_sequences(acc, {"seed": 1, "n": 500})
    acc.case("replay", True, sample=shard["case"])
    return acc
