"""C10 — Library circuits never double-book a qubit channel."""
import random
from typing import Any, Dict, List, Tuple

from qv import bp, snap, memo_shadow
from qv.acc import Acc
from qv.props import common, libgen

HANDLES_MEMO = True
TOL = 1e-7

META = {
    "level": "exploration",
    "technique": "runtime monitoring: per-qubit interval sweep over the reported (raw) and memo-free (shadow) schedule of every library circuit under random global duration settings",
    "rule": ("repetition-code constructors (full and simplified; from chain length, initial state and every contiguous sub-chain of the shipped layouts) and "
             "construct_calibration_circuit (QUBIT, QUTRIT) x random positive global settings for readout / microwave / flux / reset in {0.25..8} including "
             "readout < microwave, entered through temporary_override_get_registry_at; as constructed and after unrolling; distinct by (input, settings) hash; "
             "non-trivial = >= 2 QEC cycles (or QUTRIT calibration) and a non-default setting"),
    "assumptions": ["channel match m(a,b) from the statement (same qubit and same channel or one is ALL); zero-length operations only count against barriers"],
    "floors": {
        "quick": {"multi_round_circuits": 40, "circuits_swept": 3000, "composite_description_inputs": 100, "base_circuits_after_composite": 150, "circuits_reread_under_other_settings": 1000, "adjacent_pairs_compared": 100000, "barrier_neighbours_compared": 20000, "readout_lt_microwave": 300, "calibration_circuits": 200, "operations_observed": 200000},
        "thorough": {"circuits_swept": 30000, "circuits_reread_under_other_settings": 10000, "adjacent_pairs_compared": 1000000, "barrier_neighbours_compared": 200000, "readout_lt_microwave": 3000, "calibration_circuits": 2000, "operations_observed": 2000000},
    },
}


def plan(tier: str, seed: int) -> List[Dict[str, Any]]:
    total = 1600 if tier == "quick" else 16000
    return common.split_shards("gen", total, 16, seed, 10)


def gen_input(rng: random.Random) -> Dict[str, Any]:
    if rng.random() < 0.2:
        n = rng.randint(1, 6)
        inp: Dict[str, Any] = {"constructor": "calibration", "type": rng.choice(["QUBIT", "QUTRIT"]), "qubits": rng.sample(range(0, 12), n)}
    else:
        inp = libgen.gen_repcode_input(rng, max_distance=4, max_cycles=6, custom_index_p=0.2)
        if rng.random() < 0.12:
            # directed: the longest sub-chains (several gates per layer) with exactly one gate edge excluded, simplified constructor
            # (gates and parks of a layer share one explicit relation there)
            name = rng.choice(libgen.LAYOUTS)
            segs = [sg for sg in libgen.subchains(name, 4) if len(sg) == 7] or libgen.subchains(name, 4)
            seg = rng.choice(segs)
            inp.update({"constructor": "simplified", "description": "connectivity", "layout": name, "involved": seg, "distance": (len(seg) + 1) // 2,
                        "data_state": [rng.randint(0, 1) for _ in range((len(seg) + 1) // 2)], "ancilla_state": None, "cycles": rng.randint(1, 3)})
            inp.pop("state_container", None)
            inp.pop("index_map", None)
            comp = libgen.gen_composite(rng, inp)
            edges = comp.get("exclude_gate_edges") or []
            lay = libgen.layout(name)
            all_edges = [[q.id for q in op.identifier.qubit_ids] for k in range(lay.gate_sequence_count) for op in lay.get_gate_sequence_at_index(k).gate_operations
                         if all(q.id in seg for q in op.identifier.qubit_ids)]
            inp["composite"] = {"kind": "single_gate_edge", "exclude_gate_edges": [rng.choice(all_edges)] if all_edges else edges}
        elif inp["description"] == "connectivity" and rng.random() < 0.5:
            inp["composite"] = libgen.gen_composite(rng, inp)
    if inp["constructor"] == "full" and not inp.get("composite") and inp.get("distance", 9) <= 3 and rng.random() < 0.25:
        # the multi-round experiment constructor (unrolls, flattens and nests its blocks itself) on the same description and state
        inp["multi_round_rounds"] = rng.sample(range(0, 5), rng.randint(1, 3))
    inp["glob"] = libgen.gen_global_settings(rng, default=rng.random() < 0.15)
    if rng.random() < 0.5:
        inp["glob_again"] = [libgen.gen_global_settings(rng, default=rng.random() < 0.2) for _ in range(rng.randint(1, 2))]
    return inp


def construct(inp: Dict[str, Any]):
    if inp["constructor"] == "calibration":
        from qce_circuit.library.state_calibration.circuit_constructors import construct_calibration_circuit
        from qce_circuit.library.state_calibration.circuit_components import CalibrationDescription, CalibrateType
        from qce_circuit.connectivity.intrf_channel_identifier import QubitIDObj
        ids = [QubitIDObj(f"Q{q}") for q in inp["qubits"]]
        return construct_calibration_circuit(CalibrationDescription(
            _qubit_ids=ids, _qubit_index_map={i: q for i, q in zip(ids, inp["qubits"])}, _type=CalibrateType[inp["type"]]))
    return libgen.construct(inp)


def sweep(ops, times, acc: Acc) -> List[Dict[str, Any]]:
    """Overlaps of operations sharing a channel; per qubit, sorted by start."""
    per_q: Dict[int, List[Tuple[float, float, int, Tuple[str, ...], bool]]] = {}
    for k, (op, (s, e)) in enumerate(zip(ops, times)):
        is_barrier = type(op).__name__ == "Barrier"
        by_q: Dict[int, List[str]] = {}
        for q, ch in snap.op_channels(op):
            by_q.setdefault(q, []).append(ch)
        for q, chs in by_q.items():
            per_q.setdefault(q, []).append((s, e, k, tuple(chs), is_barrier))
    bad: List[Dict[str, Any]] = []
    for q, items in per_q.items():
        items.sort()
        n = len(items)
        for i in range(n):
            s1, e1, k1, c1, b1 = items[i]
            if i + 1 < n:
                # the sweep always compares an entry with its successor on the qubit (the loop below stops there if they are disjoint)
                acc.count("adjacent_pairs_compared")
                if b1 or items[i + 1][4]:
                    acc.count("barrier_neighbours_compared")
            for j in range(i + 1, n):
                s2, e2, k2, c2, b2 = items[j]
                if s2 >= e1 - TOL:
                    break
                acc.count("time_overlapping_pairs")
                zero1, zero2 = e1 - s1 <= TOL, e2 - s2 <= TOL
                if b1 or b2:
                    acc.count("time_overlapping_pairs_with_barrier")
                    # nothing may lie inside a barrier on one of its qubits (zero-length: strictly inside)
                    if zero1 or zero2:
                        inside = (s1 + TOL < s2 < e1 - TOL) if zero2 else (s2 + TOL < s1 < e2 - TOL)
                        if zero1 and zero2:
                            inside = False
                        if inside:
                            bad.append({"qubit": q, "a": k1, "b": k2, "kind": "barrier"})
                        continue
                    if s2 < e1 - TOL and s1 < e2 - TOL:
                        bad.append({"qubit": q, "a": k1, "b": k2, "kind": "barrier"})
                    continue
                if zero1 or zero2:
                    continue
                if any(a == b or a == "ALL" or b == "ALL" for a in c1 for b in c2):
                    if s2 < e1 - TOL and s1 < e2 - TOL:
                        bad.append({"qubit": q, "a": k1, "b": k2, "kind": "channel"})
    return bad


def check_circuit(circuit, acc: Acc, case, form: str, ctor: str):
    ops = circuit.operations
    raw = snap.raw_times(ops)
    sh = snap.shadow_times(ops)
    acc.count("circuits_swept")
    acc.count("operations_observed", len(ops))
    bad_sh = sweep(ops, sh, acc)
    if bad_sh:
        for kind in sorted({b["kind"] for b in bad_sh}):
            b = next(x for x in bad_sh if x["kind"] == kind)
            a, c = ops[b["a"]], ops[b["b"]]
            what = ("an operation overlaps a barrier on one of the barrier's qubits" if kind == "barrier"
                    else "two non-zero-length operations occupy a common qubit channel at the same time")
            acc.finding(f"overlap/{kind}/{ctor}", f"{what} in a {ctor} circuit ({form})", case,
                        {"qubit": b["qubit"], "a": [type(a).__name__, sh[b["a"]]], "b": [type(c).__name__, sh[b["b"]]],
                         "pairs": sum(1 for x in bad_sh if x["kind"] == kind)})
        return
    if any(abs(x[0] - y[0]) > TOL or abs(x[1] - y[1]) > TOL for x, y in zip(raw, sh)):
        bad_raw = sweep(ops, raw, Acc())
        acc.finding("stale-memo/" + ("overlap" if bad_raw else "times"), f"reported times of a library circuit differ from the memo-free evaluation ({form})", case,
                    {"overlapping_pairs_in_reported_times": len(bad_raw)})


def check_input(inp: Dict[str, Any], acc: Acc):
    case = {"library": inp}
    g = inp.get("glob") or {}
    if g and g.get("READOUT", 2.0) < g.get("MICROWAVE", 1.0):
        acc.count("readout_lt_microwave")
    ctor = inp["constructor"]
    if inp.get("composite"):
        acc.count("composite_description_inputs")
    if ctor == "calibration":
        acc.count("calibration_circuits")
    with libgen.override(g):
        try:
            circuit = construct(inp)
        except Exception as exc:
            if not inp.get("composite") and not isinstance(exc, libgen.CompositeNotConstructible):
                raise
            # exclusions can leave a round without any operation, which some constructors reject: no circuit is produced, the
            # statement is about the circuits the constructors produce
            acc.count("composite_constructor_raised_" + type(exc).__name__)
            return
        check_circuit(circuit, acc, case, "as constructed", ctor)
        modified = construct(inp).apply_modifiers()
        check_circuit(modified, acc, case, "unrolled", ctor)
    # the multi-round experiment constructor on the same description (seeded change C10-r12: followers of a flattened block attached behind
    # a shallower group member lose references when the flattened block is copied into the experiment circuit)
    mr = None
    if inp.get("multi_round_rounds"):
        from qce_circuit.library.repetition_code.circuit_constructors import construct_repetition_code_multi_round_circuit
        with libgen.override(g):
            mr = construct_repetition_code_multi_round_circuit(qec_cycles=list(inp["multi_round_rounds"]), description=libgen.description_of(inp),
                                                               initial_state=libgen.initial_state_of(inp))
            acc.count("multi_round_circuits")
            check_circuit(mr, acc, case, "multi-round experiment circuit", "multi_round")
    # the description a composite is based on, used for a circuit of its own AFTER the composite was evaluated
    base = inp.pop("_base_description_object", None)
    if base is not None:
        from qce_circuit.library.repetition_code.circuit_constructors import construct_repetition_code_circuit, construct_repetition_code_circuit_simplified
        fn = construct_repetition_code_circuit if ctor == "full" else construct_repetition_code_circuit_simplified
        with libgen.override(g):
            for fnx, label in ((fn, ctor), (construct_repetition_code_circuit_simplified, "simplified")):
                try:
                    base_circuit = fnx(qec_cycles=max(1, inp["cycles"]), description=base, initial_state=libgen.initial_state_of(inp))
                except Exception:
                    continue
                acc.count("base_circuits_after_composite")
                check_circuit(base_circuit, acc, case, "base description used after the composite was evaluated", label)
    # the same circuit objects under other settings (durations are read at query time, not at construction time)
    for k, g2 in enumerate(inp.get("glob_again") or []):
        with libgen.override(g2):
            check_circuit(circuit, acc, case, f"as constructed, re-read under settings #{k + 2}", ctor)
            check_circuit(modified, acc, case, f"unrolled, re-read under settings #{k + 2}", ctor)
            if mr is not None:
                check_circuit(mr, acc, case, f"multi-round experiment circuit, re-read under settings #{k + 2}", "multi_round")
            acc.count("circuits_reread_under_other_settings", 2)
    memo = memo_shadow.drain()
    if memo["discrepancy_count"]:
        acc.finding("stale-memo/monitor", "a time query answered from the process-wide memo differs from the memo-free evaluation", case, memo["discrepancies"][:3])


def check_program(inp: Dict[str, Any], acc: Acc):
    check_input(inp, acc)


def run_shard(shard: Dict[str, Any]) -> Acc:
    acc = Acc()
    rng = random.Random(shard["seed"])
    for i in range(shard["n"]):
        inp = gen_input(rng)
        acc.hist("class", inp["constructor"])
        nontrivial = bool(inp.get("glob")) and (inp.get("cycles", 0) >= 2 or inp.get("type") == "QUTRIT")
        acc.case(bp.phash(inp), nontrivial, sample=inp if i < 3 else None)
        common.guarded(acc, check_input, inp, acc, case={"library": inp})
    return acc


def replay(shard: Dict[str, Any]) -> Acc:
    acc = Acc()
    check_input(shard["case"]["library"], acc)
    acc.case("replay", True, sample=shard["case"])
    return acc
