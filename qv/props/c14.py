"""C14 — Noise dressing only adds noise, with the configured strengths."""
import math
import random
from typing import Any, Dict, List, Tuple

from qv import bp, gen, memo_shadow
from qv.acc import Acc
from qv.props import common, libgen, c08

HANDLES_MEMO = True

META = {
    "level": "exploration",
    "technique": "runtime monitoring: apply_noise output parsed target by target and compared with an independent expected stream (strip-noise identity, probability ranges, per-qubit assignment error, per-block idle Pauli channel from an independent T1/T2 formula)",
    "rule": ("Stim circuits produced by the exporter (library repetition-code circuits and generated build programs with barriers, measurements and all gate "
             "kinds) x random NoiseSettings (default and per-qubit T1/T2 incl. T2 > 2 T1, assignment errors, operation durations with the measurement being / not "
             "being the longest) x index-to-identifier maps (empty, partial, full); distinct by (circuit, settings, map) hash; non-trivial = per-qubit settings "
             "present and some TICK block whose longest configured operation is a measurement"),
    "assumptions": ["independent formula px = py = (1-exp(-t/T1))/4, pz = (1-exp(-t/T2))/2 - (1-exp(-t/T1))/4 clamped to [0,1] at t = half the longest configured "
                    "duration of the block; configured durations: measurement, CZ, H, X (anything else 0)",
                    "stim's parser is trusted"],
    "floors": {
        "quick": {"programs_with_two_digit_qubit_indices": 400, "index_maps_sharing_an_identifier": 800, "circuits_dressed": 5500, "blocks_checked": 40000, "measurement_targets_checked": 40000, "blocks_longest_is_measurement": 3000,
                  "per_qubit_settings_used": 10000, "t2_gt_2t1": 1000, "inputs_with_measurement_inside_repeat": 1500},
        "thorough": {"circuits_dressed": 55000, "blocks_checked": 400000, "measurement_targets_checked": 400000},
    },
}


def plan(tier: str, seed: int) -> List[Dict[str, Any]]:
    total = 6000 if tier == "quick" else 60000
    return common.split_shards("gen", total, 16, seed, 14)


def _qubits_of(circ):
    for st in circ["steps"]:
        if "sub" in st:
            yield from _qubits_of(st["sub"])
        else:
            yield from st["q"]


def gen_case(rng: random.Random, cls: str = "") -> Dict[str, Any]:
    if rng.random() < 0.35:
        source: Dict[str, Any] = {"library": libgen.gen_repcode_input(rng, max_distance=3, max_cycles=4)}
        nq = 2 * source["library"]["distance"] - 1
    else:
        kinds = ["Reset", "Barrier", "Hadamard", "Identity", "CPhase", "DispersiveMeasure", "Rx180", "Rx90", "Ry180", "Rym90", "Wait", "VirtualPark", "Barrier"]
        # a quarter of the programs address 13 qubits: two-digit qubit indices in every Stim target list (seeded change C14-r15: targets
        # re-parsed digit by digit)
        nq = 13 if rng.random() < 0.25 else 4
        source = {"program": gen.gen_program(rng, "nested_implicit", kinds=kinds, p_measure=0.25, p_cfg_kind=0.05, steps=(3, 12), reps=[1, 2], qubits=nq)}
    names = [f"Q{i}" for i in range(nq)]
    individual = {}
    for n in names:
        if rng.random() < 0.5:
            t1 = rng.choice([5e-6, 20e-6, 1e-4])
            individual[n] = {"t1": t1, "t2": t1 * rng.choice([0.5, 1.0, 2.0, 3.0]), "assignment_error": rng.choice([0.0, 0.02, 0.3, 1.0])}
    t1 = rng.choice([10e-6, 30e-6])
    settings = {"default_t1": t1, "default_t2": t1 * rng.choice([1.0, 2.0, 2.5]), "default_assignment_error": rng.choice([0.0, 0.01, 0.1]),
                "individual": individual,
                "durations": {"duration_mz": rng.choice([0.0, 20e-9, 500e-9, 2e-6]), "duration_cz": rng.choice([20e-9, 60e-9, 1e-6]),
                              "duration_h": rng.choice([0.0, 20e-9, 40e-9]), "duration_x": rng.choice([20e-9, 1e-6])}}
    mode = rng.randrange(4)
    index_map = {} if mode == 0 else {str(i): names[i] for i in range(nq) if mode == 2 or rng.random() < 0.5}
    if mode == 3:
        # several circuit indices share one identifier (noise configured per qubit type): every one of them carries that identifier's
        # settings (seeded change C14-r14: contains() answered from the inverted map, which keeps one index per identifier)
        k = rng.choice([1, 2])
        index_map = {str(i): names[i % k] for i in range(nq)}
    return {"source": source, "settings": settings, "index_map": index_map}


def pauli(t: float, t1: float, t2: float) -> Tuple[float, float, float]:
    if t == 0:
        return 0.0, 0.0, 0.0
    a = 1.0 - math.exp(-t / t1)
    b = 1.0 - math.exp(-t / t2)
    px = min(max(0.25 * a, 0.0), 1.0)
    pz = min(max(0.5 * b - 0.25 * a, 0.0), 1.0)
    return px, px, pz


def single_target_stream(circuit) -> List[Tuple]:
    return c08.stim_stream(circuit)


def close(a, b, tol=1e-12) -> bool:
    return len(a) == len(b) and all(abs(x - y) <= tol + 1e-9 * abs(y) for x, y in zip(a, b))


def check_case(case: Dict[str, Any], acc: Acc):
    import stim
    from qce_circuit.addon_stim.factory_manager import to_stim
    from qce_circuit.addon_stim.noise_factory_manager import apply_noise
    from qce_circuit.addon_stim.noise_settings_manager import NoiseSettings, QubitNoiseModelParameters, OperationDurationParameters
    from qce_circuit.connectivity.intrf_channel_identifier import QubitIDObj
    wrap = {"noise_case": case}
    src = case["source"]
    if "library" in src:
        circuit = libgen.construct(src["library"])
    else:
        circuit = bp.build(src["program"]).top.circuit
    sc = to_stim(circuit)
    st = case["settings"]
    settings = NoiseSettings(
        default_t1=st["default_t1"], default_t2=st["default_t2"], default_assignment_error=st["default_assignment_error"],
        individual_noise={QubitIDObj(n): QubitNoiseModelParameters(t1=v["t1"], t2=v["t2"], assignment_error=v["assignment_error"])
                          for n, v in st["individual"].items()},
        operation_durations=OperationDurationParameters(**st["durations"]),
    )
    index_map = {int(i): QubitIDObj(n) for i, n in case["index_map"].items()}
    try:
        noisy = apply_noise(sc, qubit_index_map=index_map, noise_settings=settings)
    except Exception as exc:
        # Stim validates probabilities when an instruction is built: an out-of-range value surfaces as an exception here
        kind = "probability/range" if "probab" in str(exc).lower() or "disjoint" in str(exc).lower() else "noise/raises"
        acc.finding(kind, f"apply_noise raises {type(exc).__name__} for valid noise settings", wrap, {"error": str(exc)[:200]})
        case["_nontrivial"] = False
        return
    acc.count("circuits_dressed")
    repeat_blocks = [ins for ins in sc if isinstance(ins, stim.CircuitRepeatBlock)]
    if repeat_blocks:
        acc.count("inputs_with_repeat_block")
        if any(ins2.name in ("M", "MZ") for blk in repeat_blocks for ins2 in blk.body_copy().flattened()):
            acc.count("inputs_with_measurement_inside_repeat")

    def params(q: int) -> Tuple[float, float, float]:
        name = case["index_map"].get(str(q))
        if name is not None and name in st["individual"]:
            acc.count("per_qubit_settings_used")
            v = st["individual"][name]
            return v["t1"], v["t2"], v["assignment_error"]
        return st["default_t1"], st["default_t2"], st["default_assignment_error"]

    dur = {"M": st["durations"]["duration_mz"], "MZ": st["durations"]["duration_mz"], "CZ": st["durations"]["duration_cz"],
           "H": st["durations"]["duration_h"], "X": st["durations"]["duration_x"]}
    base = single_target_stream(sc.flattened())
    out = single_target_stream(noisy)
    # ---- (a) stripping the noise gives back exactly the flattened input
    stripped = [(n, t, () if n == "M" else a) for (n, t, a) in out if n != "PAULI_CHANNEL_1"]
    if stripped != base:
        k = next((i for i, (x, y) in enumerate(zip(stripped, base)) if x != y), min(len(stripped), len(base)))
        acc.finding("strip/not-identity", "removing the noise from the dressed circuit does not give back the flattened input", wrap,
                    {"pos": k, "dressed": stripped[k] if k < len(stripped) else None, "input": base[k] if k < len(base) else None,
                     "len": [len(stripped), len(base)]})
        return
    # ---- (b) probabilities
    for n, t, a in out:
        if n == "PAULI_CHANNEL_1":
            if any(p < 0 or p > 1 for p in a) or sum(a) > 1 + 1e-12:
                acc.finding("probability/range", "an inserted Pauli channel has probabilities outside [0,1] or summing above 1", wrap, {"args": a})
                return
        elif n == "M" and a:
            if not 0 <= a[0] <= 1:
                acc.finding("probability/range", "a measurement carries an assignment error outside [0,1]", wrap, {"args": a})
                return
    # ---- (c) assignment error per measurement target
    for n, t, a in out:
        if n == "M":
            acc.count("measurement_targets_checked")
            want = params(t[0])[2]
            got = a[0] if a else 0.0
            if abs(got - want) > 1e-12:
                acc.finding("measurement/assignment-error", "a measurement does not carry the assignment error configured for its qubit", wrap,
                            {"qubit": t[0], "got": got, "configured": want})
                return
    # ---- (d) idle channel per TICK block and qubit
    qubits = sorted({q for n, t, a in base if n not in ("DETECTOR", "OBSERVABLE_INCLUDE", "SHIFT_COORDS", "TICK") for q in t})
    blocks: List[List[Tuple]] = [[]]
    for inst in base:
        blocks[-1].append(inst)
        if inst[0] == "TICK":
            blocks.append([])
    expected_args: List[Dict[int, Tuple[float, float, float]]] = []
    nontrivial_block = False
    for blk in blocks:
        t_max = max((dur.get(n, 0.0) for n, _, _ in blk), default=0.0)
        if blk and t_max > 0 and t_max == dur["M"] and any(n == "M" for n, _, _ in blk) and all(dur.get(n, 0.0) < t_max for n, _, _ in blk if n != "M"):
            acc.count("blocks_longest_is_measurement")
            nontrivial_block = True
        args = {}
        for q in qubits:
            t1, t2, _ = params(q)
            if t2 > 2 * t1:
                acc.count("t2_gt_2t1")
            args[q] = pauli(0.5 * t_max, t1, t2)
        expected_args.append(args)
    segments: List[List[Tuple]] = [[]]
    for inst in out:
        segments[-1].append(inst)
        if inst[0] == "TICK":
            segments.append([])
    if len(segments) != len(blocks):
        acc.finding("idle/block-structure", "dressed circuit has a different number of TICK-delimited blocks", wrap, {"got": len(segments), "want": len(blocks)})
        return
    last = len(blocks) - 1
    for k, seg in enumerate(segments):
        acc.count("blocks_checked")
        got_noise = sorted((t[0], a) for n, t, a in seg if n == "PAULI_CHANNEL_1")
        want_noise: List[Tuple[int, Tuple]] = []
        for q in qubits:
            if k >= 1:
                want_noise.append((q, expected_args[k - 1][q]))       # trailing channel of the previous block
            want_noise.append((q, expected_args[k][q]))               # leading channel of this block
            if k == last:
                want_noise.append((q, expected_args[k][q]))           # trailing channel of the last block
        want_noise.sort()
        ok = len(got_noise) == len(want_noise) and all(g[0] == w[0] and close(g[1], w[1]) for g, w in zip(got_noise, want_noise))
        if not ok:
            names = sorted({n for n, _, _ in blocks[k]} | ({n for n, _, _ in blocks[k - 1]} if k else set()))
            label = "measurement-block" if "M" in names else "gate-block"
            acc.finding(f"idle/strength/{label}", "idle Pauli channel around a TICK block does not follow the T1/T2 formula at half the longest configured duration", wrap,
                        {"segment": k, "block_instructions": names, "got": got_noise[:4], "expected": want_noise[:4]})
            return
        # placement: channels lead the block (before any other instruction) except the trailing ones of the last block
        idx_noise = [i for i, (n, _, _) in enumerate(seg) if n == "PAULI_CHANNEL_1"]
        idx_core = [i for i, (n, _, _) in enumerate(seg) if n != "PAULI_CHANNEL_1"]
        if idx_noise and idx_core and k != last and max(idx_noise) > min(idx_core):
            acc.finding("idle/placement", "an idle channel is placed inside a block instead of around it", wrap, {"segment": k})
            return
    case["_nontrivial"] = bool(st["individual"]) and bool(case["index_map"]) and nontrivial_block
    memo_shadow.drain()


def check_program(case: Dict[str, Any], acc: Acc):
    check_case(case, acc)


def run_shard(shard: Dict[str, Any]) -> Acc:
    acc = Acc()
    rng = random.Random(shard["seed"])
    for i in range(shard["n"]):
        case = gen_case(rng)
        acc.hist("source", "library" if "library" in case["source"] else "program")
        acc.hist("index_map", "empty" if not case["index_map"] else "mapped")
        if "program" in case["source"] and any(q >= 10 for q in _qubits_of(case["source"]["program"]["circuit"])):
            acc.count("programs_with_two_digit_qubit_indices")
        if len(set(case["index_map"].values())) < len(case["index_map"]):
            acc.count("index_maps_sharing_an_identifier")
        common.guarded(acc, check_case, case, acc, case={"noise_case": {k: v for k, v in case.items() if not k.startswith("_")}})
        nontrivial = bool(case.pop("_nontrivial", False))
        acc.case(bp.phash(case), nontrivial, sample=case)
    return acc


def replay(shard: Dict[str, Any]) -> Acc:
    acc = Acc()
    case = shard["case"]["noise_case"]
    check_case(case, acc)
    case.pop("_nontrivial", None)
    acc.case("replay", True, sample=shard["case"])
    return acc
