"""C09 — Repetition-code circuits run the protocol: deterministic detectors, exact record."""
import itertools
import random
from typing import Any, Dict, List, Tuple

from qv import bp, snap, memo_shadow
from qv.acc import Acc
from qv.props import common, libgen

HANDLES_MEMO = True

META = {
    "level": "exploration",
    "technique": "runtime monitoring with a simulation oracle: Stim's noiseless sampler / detector sampler / detector_error_model on the exported circuit vs an independent protocol model of the measurement record",
    "rule": ("construct_repetition_code_circuit over distance 2..5, all computational data states (sampled for d=5), ancilla states absent or all "
             "2^(d-1), cycles 0..8, refocusing on/off, descriptions from a chain length, from the initial state and from every contiguous data-to-data "
             "sub-chain of the three shipped repetition layouts (both orientations); each as built, after apply_modifiers() and after flatten(); "
             "distinct by input hash; non-trivial = cycles >= 2 and non-uniform data state"),
    "assumptions": [
        "Stim's stabilizer simulator (compile_sampler, compile_detector_sampler, detector_error_model) is trusted",
        "protocol model written from the statement: heralding zeros, ancilla k-th value = requested ancilla state xor k*(parity of its two chain neighbours), "
        "data flipped in every cycle but the last when refocusing, final data values",
    ],
    "floors": {
        "quick": {"many_cycle_inputs": 1, "circuits_simulated": 3000, "records_compared": 3000, "detector_checks": 3000, "with_ancilla_state": 250, "from_connectivity": 250,
                  "cycles_ge_4": 300, "refocus_off": 200, "distance_1_inputs": 40, "multi_round_experiments": 40},
        "thorough": {"circuits_simulated": 20000, "records_compared": 20000, "with_ancilla_state": 3000, "from_connectivity": 3000},
    },
}


def plan(tier: str, seed: int) -> List[Dict[str, Any]]:
    total = 1200 if tier == "quick" else 12000
    return common.split_shards("gen", total, 16, seed, 9, tier=tier)


def gen_input(rng: random.Random) -> Dict[str, Any]:
    inp = libgen.gen_repcode_input(rng, max_distance=5, max_cycles=8, constructors=("full",), min_distance=1)
    if inp["distance"] == 5 and rng.random() < 0.5:
        inp["cycles"] = rng.randint(0, 4)
    if inp["distance"] in (2, 3) and rng.random() < 0.012:
        # many cycles: the flattened circuit is several hundred relation levels deep (seeded change C09-r12: the graph walk's safety bound
        # lowered to 500 levels silently drops the rounds behind it)
        inp["cycles"] = rng.randint(28, 33)
        inp["many_cycles"] = True
        return inp
    if inp["distance"] <= 3 and rng.random() < 0.12:
        inp["multi_round_rounds"] = rng.sample(range(0, 6), rng.randint(1, 3))
        inp["ancilla_state"] = None
    return inp


def chain_indices(inp: Dict[str, Any]) -> List[int]:
    """Circuit indices along the chain, alternating data / ancilla (all descriptions index the chain 0..2d-2 in order)."""
    return list(range(2 * inp["distance"] - 1))


def expected_record(inp: Dict[str, Any], tags: List[Tuple[int, str]]) -> List[int]:
    """Protocol model: value of every measurement, given (circuit index, tag) of the record in order."""
    d = inp["distance"]
    data = list(inp["data_state"])
    anc = list(inp["ancilla_state"]) if inp.get("ancilla_state") is not None else [0] * (d - 1)
    cycles = inp["cycles"]
    refocus = inp.get("refocus", True)
    parity_seen = {a: 0 for a in range(d - 1)}
    out = []
    for q, tag in tags:
        is_data = q % 2 == 0
        k = q // 2
        if tag == "heralded":
            out.append(0)
        elif is_data:      # final data measurement
            flips = (cycles - 1) if (refocus and cycles >= 1) else 0
            out.append(data[k] ^ (flips & 1))
        else:
            if tag == "parity":
                parity_seen[k] += 1
                p = data[k] ^ data[k + 1]
                out.append(anc[k] ^ ((parity_seen[k] * p) & 1))
            else:          # 0 cycles: the ancilla is measured once
                out.append(anc[k])
    return out


def simulate(circuit, acc: Acc, case, form: str, inp: Dict[str, Any]):
    import numpy as np
    from qce_circuit.addon_stim.factory_manager import to_stim
    from qce_circuit.structure.intrf_acquisition_operation import IAcquisitionOperation
    sc = to_stim(circuit)
    acc.count("circuits_simulated")
    d, cycles = inp["distance"], inp["cycles"]
    # annotation counts
    if sc.num_detectors != (d - 1) * (cycles + 1) or sc.num_observables != 1:
        acc.finding("annotations/count", f"exported circuit has {sc.num_detectors} detectors / {sc.num_observables} observables, expected (d-1)(cycles+1) / 1 ({form})",
                    case, {"detectors": sc.num_detectors, "expected": (d - 1) * (cycles + 1), "observables": sc.num_observables})
    # measurement record
    shots = sc.compile_sampler(seed=7).sample(4).astype(int)
    return sc, shots


def decode_tags(unrolled) -> List[Tuple[int, str]]:
    from qce_circuit.structure.intrf_acquisition_operation import IAcquisitionOperation
    return [(op.qubit_index, op.acquisition_tag) for op in unrolled.operations if isinstance(op, IAcquisitionOperation)]


def check_input(inp: Dict[str, Any], acc: Acc):
    import numpy as np
    case = {"library": inp}
    if inp.get("ancilla_state") is not None:
        acc.count("with_ancilla_state")
    if inp["distance"] == 1:
        acc.count("distance_1_inputs")
    if inp["description"] == "connectivity":
        acc.count("from_connectivity")
    if inp["cycles"] >= 4:
        acc.count("cycles_ge_4")
    if not inp.get("refocus", True):
        acc.count("refocus_off")
    acc.hist("distance", inp["distance"])
    acc.hist("cycles", inp["cycles"])
    if inp.get("many_cycles"):
        acc.count("many_cycle_inputs")
    acc.hist("description", inp["description"])
    forms = {}
    built = libgen.construct(inp)
    forms["as built"] = built
    records = {}
    for form in ("as built", "unrolled", "flattened"):
        if form == "unrolled":
            forms[form] = libgen.construct(inp).apply_modifiers()
        elif form == "flattened":
            forms[form] = libgen.construct(inp).apply_modifiers().flatten()
        circuit = forms[form]
        try:
            sc, shots = simulate(circuit, acc, case, form, inp)
        except Exception as exc:
            acc.finding("export/raises", f"export or sampling raises {type(exc).__name__} ({form})", case, {"error": str(exc)[:300]})
            continue
        records[form] = shots
        if (shots != shots[0]).any():
            acc.finding("record/non-deterministic", f"noiseless measurement record differs between shots ({form})", case, None)
            continue
        # detectors and observable deterministic
        acc.count("detector_checks")
        try:
            det, obs = sc.compile_detector_sampler(seed=11).sample(16, separate_observables=True)
            if det.any() or obs.any():
                acc.finding("annotations/non-deterministic", f"a detector or the logical observable fires without noise ({form})", case,
                            {"detectors_firing": int(det.any(axis=0).sum()), "observable": bool(obs.any())})
            sc.detector_error_model()
        except Exception as exc:
            acc.finding("annotations/non-deterministic", f"Stim rejects the detectors/observable as non-deterministic ({form}): {str(exc)[:120]}", case, None)
    if "unrolled" in records:
        tags = decode_tags(forms["unrolled"])
        want = expected_record(inp, tags)
        for form, shots in records.items():
            acc.count("records_compared")
            got = [int(v) for v in shots[0]]
            if len(got) != len(want):
                acc.finding("record/length", f"measurement record has {len(got)} entries, protocol prescribes {len(want)} ({form})", case, None)
            elif got != want:
                bad = [k for k, (a, b) in enumerate(zip(got, want)) if a != b]
                kinds = sorted({("data" if tags[k][0] % 2 == 0 else "ancilla") + "/" + (tags[k][1] or "-") for k in bad})
                acc.finding("record/" + "+".join(kinds), f"noiseless measurement record deviates from the protocol ({form})", case,
                            {"positions": bad[:8], "got": [got[k] for k in bad[:8]], "expected": [want[k] for k in bad[:8]], "tags": [tags[k] for k in bad[:8]]})
    # ---- the multi-round experiment constructor: its repetition-code blocks run the same protocol, block after block.  Differential
    #      against the single-experiment constructor checked above: record and annotation counts of the multi-round circuit are the
    #      concatenation of the single circuits' (followed by the calibration part)
    if inp.get("multi_round_rounds"):
        from qce_circuit.addon_stim.factory_manager import to_stim
        from qce_circuit.library.repetition_code.circuit_constructors import construct_repetition_code_multi_round_circuit, construct_repetition_code_circuit
        rounds = inp["multi_round_rounds"]
        acc.count("multi_round_experiments")
        try:
            mr = to_stim(construct_repetition_code_multi_round_circuit(qec_cycles=list(rounds), description=libgen.description_of(inp),
                                                                      initial_state=libgen.initial_state_of(inp)))
            got_mr = [int(v) for v in mr.compile_sampler(seed=7).sample(1)[0]]
            want_mr: List[int] = []
            det_want = 0
            for n in rounds:
                single = to_stim(construct_repetition_code_circuit(qec_cycles=n, description=libgen.description_of(inp), initial_state=libgen.initial_state_of(inp)))
                want_mr += [int(v) for v in single.compile_sampler(seed=7).sample(1)[0]]
                det_want += single.num_detectors
            if got_mr[:len(want_mr)] != want_mr:
                k = next((i for i, (a, b) in enumerate(zip(got_mr, want_mr)) if a != b), min(len(got_mr), len(want_mr)))
                acc.finding("record/multi-round", "the repetition-code blocks of the multi-round experiment circuit do not give the records of the single experiments, block after block",
                            case, {"rounds": rounds, "first_difference": k, "got": got_mr[max(0, k - 3):k + 4], "expected": want_mr[max(0, k - 3):k + 4]})
            if mr.num_detectors != det_want:
                acc.finding("annotations/multi-round-count", "the multi-round experiment circuit does not carry the detectors of its blocks", case,
                            {"detectors": mr.num_detectors, "expected": det_want})
        except Exception as exc:
            acc.finding("export/raises", f"multi-round construction, export or sampling raises {type(exc).__name__}", case, {"error": str(exc)[:300]})
    memo_shadow.drain()


def run_shard(shard: Dict[str, Any]) -> Acc:
    acc = Acc()
    rng = random.Random(shard["seed"])
    for i in range(shard["n"]):
        inp = gen_input(rng)
        nontrivial = inp["cycles"] >= 2 and len(set(inp["data_state"])) > 1
        acc.case(bp.phash(inp), nontrivial, sample=inp if i < 3 else None)
        common.guarded(acc, check_input, inp, acc, case={"library": inp})
    return acc


def check_program(inp: Dict[str, Any], acc: Acc):
    check_input(inp, acc)


def replay(shard: Dict[str, Any]) -> Acc:
    acc = Acc()
    check_input(shard["case"]["library"], acc)
    acc.case("replay", True, sample=shard["case"])
    return acc
