"""C05 — Copies are faithful and independent."""
import random
from typing import Any, Dict, List, Tuple

from qv import bp, gen, model as M, snap, memo_shadow
from qv.acc import Acc
from qv.kinds import discover
from qv.props import common

HANDLES_MEMO = True
TOL = 1e-7

META = {
    "level": "exploration",
    "technique": "runtime monitoring: snapshot differential between original and copy (three copy routes), then mutation of one side with the other side re-observed",
    "rule": ("build programs over every concrete operation kind (uniform kind choice, extra fields populated, every relation type) copied by "
             "structure.copy(), by adding to an empty circuit and by a repetition count of 2, followed by a random mutation (add / unroll / flatten) of "
             "one side; distinct by structural hash; non-trivial = contains a Barrier/annotation kind or an explicit relation"),
    "assumptions": ["copies are compared position-wise along the operation listing (signature, relation type, index of the referenced operation, schedule relative to the first start)"],
    "floors": {
        "quick": {"copies_behind_an_operation_compared": 3000, "programs_with_value_equal_twins": 150, "copies_compared": 6000, "repeated_copies_schedule_compared": 3000, "mutation_independence_checks": 3000, "kinds_min_instances": 20, "unrolled_copies_compared": 5000, "listed_then_copied_compared": 5000, "flattened_copies_compared": 5000, "empty_placeholder_checks": 3000, "copies_compared_after_registry_change": 3000, "same_object_nested_twice_checks": 3000, "same_object_nested_twice_grown_inside": 1000},
        "thorough": {"copies_compared": 60000, "mutation_independence_checks": 30000, "kinds_min_instances": 200},
    },
}

CLASSES = ["allkinds", "allkinds", "explicit", "nested_explicit", "measure"]
ANNOTATION_KINDS = {"Barrier", "CoordinateShiftOperation", "DetectorOperation", "LogicalObservableOperation", "VirtualVacant",
                    "VirtualEmpty", "VirtualTwoQubitVacant"}


def plan(tier: str, seed: int) -> List[Dict[str, Any]]:
    total = 4000 if tier == "quick" else 50000
    return common.split_shards("gen", total, 16, seed, 5, classes=CLASSES)


def gen_case(rng: random.Random, cls: str) -> Dict[str, Any]:
    prog = gen.gen_program(rng, cls, fields=True)
    if rng.random() < 0.2:
        prog["shared_link_twins"] = gen.add_shared_link_twins(rng, prog["circuit"], nested_only=False)
    prog["mutation"] = {"side": rng.choice(["original", "copy"]), "kind": rng.choice(["add", "unroll", "flatten", "add_sub"]),
                        "route": rng.choice(["structure_copy", "add_to_empty"])}
    return prog


def snapshot(ops, times) -> List[Tuple]:
    """Per listing position: signature, relation type, index of the referenced operation, schedule relative to the first start."""
    index = {id(o): k for k, o in enumerate(ops)}
    t0 = min((s for s, _ in times), default=0.0)
    out = []
    for op, (s, e) in zip(ops, times):
        li = snap.link_info(op)
        if li["kind"] == "single":
            ref = li["ref"]
            if ref is None:
                r: Any = "none"
            elif snap.is_composite(ref):
                members = sorted(index.get(id(x), -1) for x in snap.walk_leaves(ref))
                r = ("block", tuple(members))
            else:
                r = index.get(id(ref), "outside")
            rel = (li["type"], r)
        elif li["kind"] == "multi":
            rel = ("multi:" + li["type"], tuple(sorted(index.get(id(x), -1) for x in li["refs"] if not snap.is_composite(x))))
        else:
            rel = (li["kind"], None)
        out.append((snap.op_sig(op), rel, round(s - t0, 7), round(e - t0, 7)))
    return out


def acquisition(ops) -> List[Tuple]:
    out = []
    for op in ops:
        if hasattr(op, "acquisition_index"):
            out.append((op.acquisition_index, op.circuit_level_acquisition_index))
    return out


_TWINS = [False]     # the program under check holds value-equal twin operations sharing one RelationLink instance (known finding, DESIGN.md 9.2)


def compare_snapshots(acc: Acc, case, route: str, a: List[Tuple], b: List[Tuple]):
    acc.count("copies_compared")
    if len(a) != len(b):
        acc.finding(f"copy/length", f"copy ({route}) lists {len(b)} operations, original {len(a)}", case, None)
        return
    twins = _TWINS[0] and sorted(e[0] for e in a) == sorted(e[0] for e in b)
    for k, (x, y) in enumerate(zip(a, b)):
        if x[0] != y[0] and twins:
            # consequence of the known finding below: the operation that was re-pointed to the later twin's copy is also LISTED behind it
            acc.finding("copy/relation/value-equal-twin", f"a program holding value-equal twin operations is copied with another listing order ({route})", case,
                        {"pos": k, "original": x[0], "copy": y[0]})
            return
        if x[0] != y[0]:
            kind = x[0][0]
            acc.finding(f"copy/signature/{kind}", f"copied {kind} differs from the original in kind/qubits/channels/duration/tag/fields ({route})", case,
                        {"pos": k, "original": x[0], "copy": y[0]})
            return
        if x[1] != y[1]:
            rx, ry = x[1][1], y[1][1]
            if twins or (x[1][0] == y[1][0] and isinstance(rx, int) and isinstance(ry, int) and 0 <= rx < len(a) and 0 <= ry < len(a) and rx != ry
                         and a[rx][0] == a[ry][0] and a[rx][1] == a[ry][1]):
                # known finding (DESIGN.md 9.2): the copy's relation lookup is keyed by VALUE, so of two distinct but value-equal operations
                # (same kind, qubits, duration and the same RelationLink instance) the later one's copy replaces the earlier one's entry and
                # whatever referred to the earlier twin is re-pointed to the later twin's copy.  Keyed by that mechanism, nothing else.
                acc.finding("copy/relation/value-equal-twin", f"relation of a copied {x[0][0]} is re-pointed to the copy of a value-equal twin of the operation it referred to ({route})",
                            case, {"pos": k, "original": x[1], "copy": y[1]})
                return
            acc.finding(f"copy/relation/{x[0][0]}", f"relation of a copied {x[0][0]} is not re-pointed to the corresponding copied operation ({route})", case,
                        {"pos": k, "original": x[1], "copy": y[1]})
            return
        if abs(x[2] - y[2]) > TOL or abs(x[3] - y[3]) > TOL:
            acc.finding("copy/schedule", f"schedule of the copy relative to its own start differs ({route})", case,
                        {"pos": k, "original": x[2:], "copy": y[2:]})
            return


def listing_with_shadow(circuit_or_composite):
    ops = circuit_or_composite.operations if hasattr(circuit_or_composite, "operations") else circuit_or_composite.decomposed_operations()
    return ops, snap.shadow_times(ops)


def mutate(target, kind: str, rng_seed: int):
    """Mutation applied to a DeclarativeCircuit (returns the circuit to observe afterwards)."""
    from qce_circuit.structure.circuit_operations import Rx180, Reset
    from qce_circuit.language.declarative_circuit import DeclarativeCircuit
    if kind == "add":
        target.add(Rx180(rng_seed % 4))
        target.add(Reset((rng_seed // 4) % 4))
        return target
    if kind == "add_sub":
        sub = DeclarativeCircuit()
        sub.add(Rx180(rng_seed % 4))
        target.add(sub)
        return target
    if kind == "unroll":
        return target.apply_modifiers()
    if kind == "flatten":
        return target.flatten()
    raise ValueError(kind)


def check_program(prog: Dict[str, Any], acc: Acc, flags=None):
    from qce_circuit.language.declarative_circuit import DeclarativeCircuit
    ctx = bp.Ctx(prog.get("settings"))
    case = {"program": prog}
    mut = prog.get("mutation") or {"side": "copy", "kind": "add", "route": "structure_copy"}
    _TWINS[0] = bool(prog.get("shared_link_twins"))
    if _TWINS[0]:
        acc.count("programs_with_value_equal_twins")
    with ctx.global_override():
        # ---- route 1: structure.copy()   (copy first, observe afterwards: observing before copying is a C03 history)
        built = bp.build(prog, ctx)
        acc.merge_counts({k: v for k, v in built.counters.items() if k.startswith("kind_")})
        original = built.top.circuit
        copy1 = original.circuit_structure.copy()
        ops_o, t_o = listing_with_shadow(original)
        ops_c, t_c = listing_with_shadow(copy1)
        snap_o, snap_c = snapshot(ops_o, t_o), snapshot(ops_c, t_c)
        compare_snapshots(acc, case, "structure.copy", snap_o, snap_c)
        shared = {id(o) for o in ops_o} & {id(o) for o in ops_c}
        if shared:
            acc.finding("copy/shared-object", "original and copy list the same operation object (structure.copy)", case, {"n": len(shared)})
        # ---- the copy follows the same LIVE duration settings as the original: registry durations are re-assigned after the copy
        #      was made and both sides are read again (a copy that froze a duration at copy time diverges)
        if (prog.get("settings") or {}).get("reg") is not None:
            for k2, v2 in (("ra", 2), ("rb", 7.25), ("rc", 0.5)):
                ctx.duration_registry.set_registry_at(k2, v2)
            ops_o_r, t_o_r = listing_with_shadow(original)
            ops_c_r, t_c_r = listing_with_shadow(copy1)
            compare_snapshots(acc, case, "structure.copy, registry durations re-assigned afterwards", snapshot(ops_o_r, t_o_r), snapshot(ops_c_r, t_c_r))
            acc.count("copies_compared_after_registry_change")
            for k2, v2 in ctx.S.reg.items():
                ctx.duration_registry.set_registry_at(k2, v2)
            for k2 in ("ra", "rb", "rc"):
                if k2 not in ctx.S.reg:
                    ctx.duration_registry.set_registry_at(k2, 0.0)
        # ---- route 2: adding to an empty circuit
        built2 = bp.build(prog, bp.Ctx(prog.get("settings")))
        outer = DeclarativeCircuit()
        outer.add(built2.top.circuit)
        ops_o2, t_o2 = listing_with_shadow(built2.top.circuit)
        ops_c2, t_c2 = listing_with_shadow(outer)
        snap_o2, snap_c2 = snapshot(ops_o2, t_o2), snapshot(ops_c2, t_c2)
        compare_snapshots(acc, case, "add-to-empty-circuit", snap_o2, snap_c2)
        if {id(o) for o in ops_o2} & {id(o) for o in ops_c2}:
            acc.finding("copy/shared-object", "original and copy list the same operation object (add to empty circuit)", case, None)
        if acquisition(ops_o2) != acquisition(ops_c2) and all(i >= 0 for pair in acquisition(ops_o2) for i in pair):
            acc.finding("copy/acquisition-indices", "acquisition indices of the nested copy differ from the original's", case,
                        {"original": acquisition(ops_o2)[:6], "copy": acquisition(ops_c2)[:6]})
        # ---- route 3: repetition (two chained copies); each copy must be the block's listing signature-wise
        prog3 = {"circuit": {"reps": 1, "steps": [{"sub": dict(prog["circuit"], reps=2)}]}, "settings": prog.get("settings")}
        built3 = bp.build(prog3, bp.Ctx(prog.get("settings")))
        inner_model = M.unroll(built3.top.mnodes[0].sub, 1, ctx.S, {})       # nested counts applied, this level once
        once = sorted(M.sig(n, ctx.S) for n, _, _ in M.leaf_records(inner_model, ctx.S))
        mod3 = built3.top.circuit.apply_modifiers()
        got = sorted(snap.op_sig(o) for o in mod3.operations)
        acc.count("copies_compared")
        if got != sorted(once + once):
            only_a, only_b = snap.multiset_diff(got, once + once)
            acc.finding("copy/repetition-content", "a block repeated twice does not list twice the block's operations", case,
                        {"only_library": only_a[:4], "only_expected": only_b[:4]})
        elif len(got) >= 2:
            # the two chained copies have the same schedule relative to their own start: the unrolled listing is copy 1 followed by
            # copy 2 (the heads of copy 2 hang below the deepest leaf of copy 1), times relative to the first listed operation of each
            # half (seeded change C05-r11: heads of a repeated copy serialised because each saw the previous head already attached)
            ops3, t3 = listing_with_shadow(mod3)
            half = len(ops3) // 2
            halves = []
            for part_ops, part_t in ((ops3[:half], t3[:half]), (ops3[half:], t3[half:])):
                t0 = part_t[0][0]
                halves.append(sorted((snap.op_sig(o), round(t[0] - t0, 6), round(t[1] - t0, 6)) for o, t in zip(part_ops, part_t)))
            acc.count("repeated_copies_schedule_compared")
            if halves[0] != halves[1]:
                only_a, only_b = snap.multiset_diff(halves[0], halves[1])
                acc.finding("copy/repetition-schedule", "the second of two chained copies of a block does not have the first copy's schedule relative to its own start", case,
                            {"only_first": [repr(x) for x in only_a[:3]], "only_second": [repr(x) for x in only_b[:3]]})
        # ---- route 4: copy of an UNROLLED circuit (group relations of repeated copies must be re-pointed as well)
        built4 = bp.build(prog, bp.Ctx(prog.get("settings")))
        unrolled = built4.top.circuit.apply_modifiers()
        copy4 = unrolled.circuit_structure.copy()
        outer4 = DeclarativeCircuit()
        outer4.add(unrolled)
        ops_u, t_u = listing_with_shadow(unrolled)
        for route, target in (("structure.copy of unrolled", copy4), ("unrolled added to empty circuit", outer4)):
            ops_k, t_k = listing_with_shadow(target)
            compare_snapshots(acc, case, route, snapshot(ops_u, t_u), snapshot(ops_k, t_k))
            acc.count("unrolled_copies_compared")
        # ---- route 5: copy of a circuit that was LISTED before (listing hands relation links to head operations; the copy must
        #      not depend on it - defect 15 of DESIGN.md 9.1, repaired)
        built5 = bp.build(prog, bp.Ctx(prog.get("settings")))
        listed = built5.top.circuit
        ops_l, t_l = listing_with_shadow(listed)
        snap_l = snapshot(ops_l, t_l)
        if snap_l != snap_o:
            acc.finding("copy/rebuild-differs", "two builds of the same program list differently", case, None)
        copy5 = listed.circuit_structure.copy()
        outer5 = DeclarativeCircuit()
        outer5.add(listed)
        for route, target in (("structure.copy after a listing", copy5), ("add to empty circuit after a listing", outer5)):
            ops_k, t_k = listing_with_shadow(target)
            compare_snapshots(acc, case, route, snap_l, snapshot(ops_k, t_k))
            if acquisition(ops_l) != acquisition(ops_k) and all(i >= 0 for pair in acquisition(ops_l) for i in pair) and route.startswith("add"):
                acc.finding("copy/acquisition-indices", f"acquisition indices of the copy differ from the original's ({route})", case,
                            {"original": acquisition(ops_l)[:6], "copy": acquisition(ops_k)[:6]})
            acc.count("listed_then_copied_compared")
        # ---- route 6: copy of a FLATTENED circuit (flatten turns relations to sub-circuits into group relations of any relation
        #      type; they must be copied with their type and re-pointed)
        built6 = bp.build(prog, bp.Ctx(prog.get("settings")))
        flat = built6.top.circuit.flatten()
        ops_f, t_f = listing_with_shadow(flat)
        if len(ops_f) <= 220:
            snap_f = snapshot(ops_f, t_f)
            copy6 = flat.circuit_structure.copy()
            outer6 = DeclarativeCircuit()
            outer6.add(flat)
            for route, target in (("structure.copy of flattened", copy6), ("flattened added to empty circuit", outer6)):
                ops_k, t_k = listing_with_shadow(target)
                compare_snapshots(acc, case, route, snap_f, snapshot(ops_k, t_k))
                acc.count("flattened_copies_compared")
        # ---- route 7: an EMPTY sub-circuit is nested (copied) and the caller's own empty circuit is filled afterwards; and the
        #      copy's empty placeholder is filled: neither side may see the other's additions
        built7 = bp.build(prog, bp.Ctx(prog.get("settings")))
        host = built7.top.circuit
        placeholder = DeclarativeCircuit()
        host.add(placeholder)
        ops_h, t_h = listing_with_shadow(host)
        snap_h = snapshot(ops_h, t_h)
        placeholder.add(bp.make_op({"k": "Ry90", "q": [1]}, ctx, [built7.top]))
        placeholder.add(bp.make_op({"k": "CPhase", "q": [0, 1]}, ctx, [built7.top]))
        ops_h2, t_h2 = listing_with_shadow(host)
        acc.count("empty_placeholder_checks")
        if snapshot(ops_h2, t_h2) != snap_h:
            acc.finding("independence/empty-placeholder", "filling the caller's own (formerly empty) circuit after it was nested changed what the enclosing circuit reports",
                        case, {"before": len(ops_h), "after": len(ops_h2)})
        copy7 = host.circuit_structure.copy()
        empties = [c for c in copy7.get_sub_composite_operations() if c.empty_composite]
        if empties:
            empties[-1].add(bp.make_op({"k": "Rx180", "q": [0]}, ctx, [built7.top]))
            ops_h3, t_h3 = listing_with_shadow(host)
            if snapshot(ops_h3, t_h3) != snap_h:
                acc.finding("independence/empty-placeholder", "filling an empty sub-circuit of the COPY changed what the original reports", case,
                            {"before": len(ops_h), "after": len(ops_h3)})
        # ---- route 8: the implicit copy is nested BEHIND an operation (not at t = 0), a duration is asked before the first listing, and
        #      the times are taken as a caller reads them (through the memo): relative to its own first operation the copy has the
        #      original's schedule (seeded change C05-r13: memo not cleared after the copy's relation was handed to its head operations)
        if ops_o2:
            first_q = snap.op_sig(ops_o2[0])[1]
            built8 = bp.build(prog, bp.Ctx(prog.get("settings")))
            outer8 = DeclarativeCircuit()
            outer8.add(bp.make_op({"k": "Wait", "q": [int(first_q[0])], "dur": 3}, ctx, [built8.top]))
            outer8.add(built8.top.circuit)
            snap.raw_value(lambda: float(outer8.duration))
            ops8 = outer8.operations[1:]
            raw8 = snap.raw_times(ops8)
            acc.count("copies_behind_an_operation_compared")
            if len(ops8) == len(ops_o2) and raw8:
                rel_c = sorted((snap.op_sig(o), round(t[0] - raw8[0][0], 6), round(t[1] - raw8[0][0], 6)) for o, t in zip(ops8, raw8))
                rel_o = sorted((snap.op_sig(o), round(t[0] - t_o2[0][0], 6), round(t[1] - t_o2[0][0], 6)) for o, t in zip(ops_o2, t_o2))
                if rel_c != rel_o:
                    sh8 = snap.shadow_times(ops8)
                    stale = any(abs(a[0] - b[0]) > 1e-9 or abs(a[1] - b[1]) > 1e-9 for a, b in zip(raw8, sh8))
                    only_a, only_b = snap.multiset_diff(rel_c, rel_o)
                    acc.finding("stale-memo/copy-behind-operation" if stale else "copy/schedule-behind-operation",
                                "a copy nested behind an operation does not report the original's schedule relative to its own start (duration asked before the first listing)",
                                case, {"only_copy": [repr(x) for x in only_a[:3]], "only_original": [repr(x) for x in only_b[:3]]})
        # ---- route 9: the SAME circuit object is nested twice into one parent, with an operation added to one of ITS nested sub-circuits
        #      (through the handle its own add() returned) in between: each implicit copy shows the circuit as it was when it was added
        #      (seeded change C05-r16: add_sub_circuit copies from a per-source snapshot renewed only when the top-level count changes)
        built9 = bp.build(prog, bp.Ctx(prog.get("settings")))
        src9 = built9.top.circuit
        parent9 = DeclarativeCircuit()
        as_structure = len(ops_o2) % 2 == 0
        first9 = parent9.add(src9.circuit_structure if as_structure else src9)
        sig_first = sorted(snap.op_sig(o) for o in first9.decomposed_operations())
        nested9 = [h for h, c in zip(built9.top.handles, built9.top.children) if c is not None]
        target9 = nested9[-1] if nested9 else src9
        target9.add(bp.make_op({"k": "Ry90", "q": [1]}, ctx, [built9.top]))
        target9.add(bp.make_op({"k": "CPhase", "q": [0, 1]}, ctx, [built9.top]))
        sig_src = sorted(snap.op_sig(o) for o in src9.operations)
        second9 = parent9.add(src9.circuit_structure if as_structure else src9)
        acc.count("same_object_nested_twice_checks")
        if nested9:
            acc.count("same_object_nested_twice_grown_inside")
        if sorted(snap.op_sig(o) for o in second9.decomposed_operations()) != sig_src:
            acc.finding("copy/second-nesting-not-current", "a circuit nested a second time after one of its sub-circuits grew is not copied as it is now", case,
                        {"original": len(sig_src), "copy": len(second9.decomposed_operations())})
        elif sorted(snap.op_sig(o) for o in first9.decomposed_operations()) != sig_first:
            acc.finding("independence/first-nesting-moved", "the first nested copy changed when the original grew afterwards", case, None)
        elif len(parent9.operations) != len(sig_first) + len(sig_src):
            acc.finding("copy/second-nesting-not-current", "the parent does not list the first copy plus the current content of the circuit nested again", case,
                        {"listed": len(parent9.operations), "expected": len(sig_first) + len(sig_src)})
        # ---- independence: mutate one side, the other side's snapshot must not move
        if mut["route"] == "structure_copy":
            # wrap the structure copy so that the DeclarativeCircuit mutators are available on it
            copy_circuit = DeclarativeCircuit()
            copy_circuit._structure = copy1
            pair = {"original": (original, snap_o, ops_o), "copy": (copy_circuit, snap_c, ops_c)}
        else:
            pair = {"original": (built2.top.circuit, snap_o2, ops_o2), "copy": (outer, snap_c2, ops_c2)}
        mutated_side = mut["side"]
        other_side = "copy" if mutated_side == "original" else "original"
        raw_before = snap.raw_times(pair[other_side][2])
        try:
            mutate(pair[mutated_side][0], mut["kind"], len(prog["circuit"]["steps"]) * 7 + 3)
            mutated_ok = True
        except Exception as exc:
            acc.count("mutation_raised_" + type(exc).__name__)
            mutated_ok = False
        if mutated_ok:
            acc.count("mutation_independence_checks")
            acc.count("mutation_" + mut["kind"])
            other_circ, other_snap, other_ops = pair[other_side]
            ops_after, t_after = listing_with_shadow(other_circ)
            if len(ops_after) != len(other_ops) or any(a is not b for a, b in zip(ops_after, other_ops)):
                acc.finding("independence/listing", f"mutating the {mutated_side} ({mut['kind']}) changed the object listing of the {other_side}", case, None)
            else:
                snap_after = snapshot(ops_after, t_after)
                if snap_after != other_snap:
                    diff = [k for k, (x, y) in enumerate(zip(snap_after, other_snap)) if x != y][:3]
                    acc.finding("independence/snapshot", f"mutating the {mutated_side} ({mut['kind']}) changed what the {other_side} reports", case,
                                {"positions": diff, "before": [other_snap[k] for k in diff], "after": [snap_after[k] for k in diff]})
                raw_after = snap.raw_times(ops_after)
                if any(abs(a[0] - b[0]) > TOL or abs(a[1] - b[1]) > TOL for a, b in zip(raw_before, raw_after)):
                    acc.finding("independence/reported-times", f"mutating the {mutated_side} ({mut['kind']}) changed the times reported for the {other_side}", case, None)
    memo = memo_shadow.drain()
    if flags is not None:
        st = bp.stats(prog["circuit"])
        flags["nontrivial"] = st["explicit"] > 0 or _has_kind(prog["circuit"], ANNOTATION_KINDS)


def _has_kind(circ, kinds) -> bool:
    for st in circ["steps"]:
        if "sub" in st:
            if _has_kind(st["sub"], kinds):
                return True
        elif st["k"] in kinds:
            return True
    return False


def run_shard(shard: Dict[str, Any]) -> Acc:
    acc = Acc()
    rng = random.Random(shard["seed"])
    classes = shard["classes"]
    for i in range(shard["n"]):
        cls = classes[i % len(classes)]
        prog = gen_case(rng, cls)
        acc.hist("class", cls)
        acc.hist("mutation", prog["mutation"]["kind"] + "/" + prog["mutation"]["side"])
        flags: Dict[str, Any] = {}
        common.guarded(acc, check_program, prog, acc, flags, case={"program": prog})
        acc.case(bp.phash(prog), bool(flags.get("nontrivial")), sample=prog if i < 40 else None)
    for k in discover().keys():
        acc.counters.setdefault("kind_" + k, 0)
    return acc


def finalize(counters: Dict[str, int]) -> None:
    """Coverage floor: every concrete operation kind of the tree under test was instantiated often enough."""
    kinds = [k for k in counters if k.startswith("kind_")]
    counters["kinds_discovered"] = len(kinds)
    counters["kinds_min_instances"] = min((counters[k] for k in kinds), default=0)


def replay(shard: Dict[str, Any]) -> Acc:
    acc = Acc()
    check_program(shard["case"]["program"], acc)
    acc.case("replay", True, sample=shard["case"])
    return acc
