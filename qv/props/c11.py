"""C11 — Flattening keeps the operations, and for library circuits the program."""
import random
from typing import Any, Dict, List

from qv import bp, gen, model as M, snap, memo_shadow
from qv.acc import Acc
from qv.props import common, libgen, c05

HANDLES_MEMO = True
TOL = 1e-7

META = {
    "level": "exploration",
    "technique": "runtime monitoring: before/after observer around flatten() (leaf multiset, no sub-circuit left, idempotence; for library circuits listing order, schedule, acquisition indices, Stim program)",
    "rule": ("implicitly sequenced nested build programs (nesting <= 3, with and without unrolling first) and modifier-applied library circuits (repetition code "
             "d 2-4, cycles 0-8, full and simplified; multi-round experiment circuits); distinct by structural hash; non-trivial = nesting depth >= 2"),
    "assumptions": ["for generated programs only the multiset clause is asserted (the statement promises order/schedule only for library circuits)"],
    "floors": {
        "quick": {"distance_1_inputs": 2, "flatten_calls": 2500, "second_flatten_checks": 2500, "flatten_after_add_through_other_wrapper": 1200, "library_flatten_checks": 50, "library_unobserved_flatten_checks": 50, "simplified_zero_cycle_inputs": 8, "duration_read_before_first_listing": 15, "schedule_read_under_other_override": 10, "leaves_compared": 30000, "deep_flatten_depth": 1300},
        "thorough": {"flatten_calls": 30000, "second_flatten_checks": 30000, "library_flatten_checks": 150},
    },
}


def plan(tier: str, seed: int) -> List[Dict[str, Any]]:
    total = 3000 if tier == "quick" else 40000
    shards = common.split_shards("gen", total, 14, seed, 11, classes=["nested_implicit", "measure_implicit"])
    nlib = 60 if tier == "quick" else 400
    shards.append({"kind": "library", "n": nlib // 2, "seed": common.seed_base(seed, 111), "hashseed": 0})
    shards.append({"kind": "library", "n": nlib // 2, "seed": common.seed_base(seed, 112), "hashseed": 0})
    # flattening merges all nested relation chains into ONE graph: programs whose merged depth is far beyond any single block
    shards.append({"kind": "deep", "hashseed": 0, "seed": common.seed_base(seed, 113),
                   "shapes": [[30, 20], [12, 60]] if tier == "quick" else [[30, 20], [12, 60], [60, 40], [96, 50]],
                   "library_cycles": [35] if tier == "quick" else [35, 70]})
    return shards


def gen_case(rng: random.Random, cls: str) -> Dict[str, Any]:
    if cls == "measure_implicit":
        prog = gen.gen_program(rng, "measure", p_rel=0.0, reps=[1, 1, 2, 3])
    else:
        prog = gen.gen_program(rng, "nested_implicit", reps=[1, 1, 2, 3])
    prog["unroll_first"] = rng.random() < 0.5
    return prog


def check_program(prog: Dict[str, Any], acc: Acc, flags=None):
    flags = flags if flags is not None else {}
    ctx = bp.Ctx(prog.get("settings"))
    case = {"program": prog}
    flags["nontrivial"] = bp.stats(prog["circuit"])["depth"] >= 2
    with ctx.global_override():
        built = bp.build(prog, ctx)
        circuit = built.top.circuit
        if prog.get("unroll_first"):
            circuit = circuit.apply_modifiers()
        before = sorted(snap.op_sig(o) for o in circuit.operations)
        flat = circuit.flatten()
        acc.count("flatten_calls")
        ops = flat.operations
        after = sorted(snap.op_sig(o) for o in ops)
        acc.count("leaves_compared", len(before))
        if before != after:
            only_a, only_b = snap.multiset_diff(after, before)
            acc.finding("flatten/content", "flattening changed the multiset of leaf operations (kind, qubits, duration, tag)", case,
                        {"only_after": only_a[:4], "only_before": only_b[:4]})
        if flat.composite_operations or any(snap.is_composite(o) for o in snap.walk_nodes(flat.circuit_structure)):
            acc.finding("flatten/sub-circuit-left", "a sub-circuit remains after flatten()", case, None)
        ids = [id(o) for o in ops]
        read_times = len(ops) <= 220      # longer flat chains exceed the interpreter recursion limit of the library's time evaluation
        times = snap.raw_times(ops) if read_times else []
        again = flat.flatten()
        ops2 = again.operations
        acc.count("second_flatten_checks")
        if [id(o) for o in ops2] != ids:
            acc.finding("flatten/not-idempotent", "flattening a second time changes the listing", case, {"len1": len(ops), "len2": len(ops2)})
        elif read_times:
            acc.count("second_flatten_time_checks")
            t2 = snap.raw_times(ops2)
            if any(abs(a[0] - b[0]) > TOL or abs(a[1] - b[1]) > TOL for a, b in zip(times, t2)):
                acc.finding("flatten/not-idempotent-times", "flattening a second time changes reported times", case, None)
        # flatten -> nest a sub-circuit through ANOTHER wrapper of the same (in-place flattened) structure -> flatten the wrapper
        # returned earlier: flattening is a statement about the circuit, not about which wrapper object was asked before
        # (seeded change C11-r16: an "already flat" flag kept on the wrapper)
        from qce_circuit.language.declarative_circuit import DeclarativeCircuit
        from qce_circuit.structure.circuit_operations import Rx180, Ry90
        if flat.circuit_structure is circuit.circuit_structure and len(ops) <= 220:
            sub = DeclarativeCircuit()
            sub.add(Rx180(0))
            sub.add(Ry90(1))
            donor, asked = (circuit, flat) if len(ops) % 2 == 0 else (flat, again)
            if asked.circuit_structure is donor.circuit_structure and asked is not donor:
                donor.add(sub)
                late = asked.flatten()
                acc.count("flatten_after_add_through_other_wrapper")
                if late.composite_operations or any(snap.is_composite(o) for o in snap.walk_nodes(late.circuit_structure)):
                    acc.finding("flatten/sub-circuit-left-after-late-add", "a sub-circuit nested through another wrapper of the same circuit remains after flatten()", case, None)
                elif sorted(snap.op_sig(o) for o in late.operations) != sorted(after + [snap.op_sig(o) for o in sub.operations]):
                    acc.finding("flatten/content-after-late-add", "flatten() after nesting one more sub-circuit does not list the former leaves plus the new ones", case, None)
    memo = memo_shadow.drain()
    if memo["discrepancy_count"]:
        acc.finding("stale-memo/monitor", "a time query answered from the process-wide memo differs from the memo-free evaluation", case, memo["discrepancies"][:3])


def lib_snapshot(circuit) -> Dict[str, Any]:
    from qce_circuit.addon_stim.factory_manager import to_stim
    ops = circuit.operations
    raw = snap.raw_times(ops)
    sh = snap.shadow_times(ops)
    out = {
        "listing": [snap.op_sig(o) for o in ops],
        "raw": [(round(s, 7), round(e, 7)) for s, e in raw],
        "shadow": [(round(s, 7), round(e, 7)) for s, e in sh],
        "acquisition": c05.acquisition(ops),
        "acquisition_by_op": {id(o): (o.acquisition_index, o.circuit_level_acquisition_index) for o in ops if hasattr(o, "acquisition_index")},
        "schedule_by_op": {id(o): (round(t[0], 7), round(t[1], 7)) for o, t in zip(ops, sh)},
        "stim": to_stim(circuit).flattened(),
    }
    qubits = sorted({q for s in out["listing"] for q in s[1]})
    out["by_qubit"] = [(q, [int(v) for v in circuit.get_acquisition_indices(q)]) for q in qubits]
    return out


def check_library(inp: Dict[str, Any], acc: Acc):
    case = {"library": inp}
    with libgen.override(inp.get("glob") or {}):
        if inp.get("multi_round"):
            from qce_circuit.library.repetition_code.circuit_constructors import construct_repetition_code_multi_round_circuit
            circuit = construct_repetition_code_multi_round_circuit(
                qec_cycles=inp["rounds"], description=libgen.description_of(inp), initial_state=libgen.initial_state_of(inp))
        else:
            circuit = libgen.construct(inp)
        circuit = circuit.apply_modifiers()
        if inp.get("duration_read_first"):
            # a timing read BEFORE the operations are listed for the first time (fills the start-time memo early)
            acc.count("duration_read_before_first_listing")
            float(circuit.duration)
        if inp.get("read_under_other_override"):
            # the schedule is read once under OTHER global settings (a nested temporary override) and the override is left again
            acc.count("schedule_read_under_other_override")
            with libgen.override(inp["read_under_other_override"]):
                [(o.start_time, o.end_time) for o in circuit.operations]
        a = lib_snapshot(circuit)
        if a["raw"] != a["shadow"]:
            acc.finding("stale-memo/before-flatten", "times reported for a modifier-applied library circuit differ from the memo-free evaluation", case, None)
        flat = circuit.flatten()
        b = lib_snapshot(flat)
        acc.count("library_flatten_checks")
        acc.count("leaves_compared", len(a["listing"]))
        ctor = "multi_round" if inp.get("multi_round") else inp["constructor"]
        if sorted(a["listing"]) != sorted(b["listing"]):
            acc.finding("flatten/library-content", "flattening a library circuit changed its leaf operations", case, None)
        elif a["listing"] != b["listing"]:
            k = next(i for i, (x, y) in enumerate(zip(a["listing"], b["listing"])) if x != y)
            acc.finding(f"flatten/library-listing-order/{ctor}", f"flattening a modifier-applied library circuit ({ctor} constructor) changed the listing order", case,
                        {"pos": k, "before": a["listing"][k], "after": b["listing"][k]})
        # flatten keeps the leaf objects: schedule and indices are compared per operation object
        if set(a["schedule_by_op"]) != set(b["schedule_by_op"]):
            acc.finding("flatten/library-objects", "flattening a library circuit replaced leaf operation objects", case, None)
        else:
            moved = [k for k in a["schedule_by_op"] if a["schedule_by_op"][k] != b["schedule_by_op"][k]]
            if moved:
                acc.finding(f"flatten/library-schedule/{ctor}", f"flattening a modifier-applied library circuit ({ctor} constructor) changed its schedule", case,
                            {"operations_moved": len(moved)})
            elif a["listing"] == b["listing"] and a["raw"] != b["raw"]:
                acc.finding("stale-memo/flatten", "reported times around flatten differ although the memo-free schedule is identical", case, None)
            if a["acquisition_by_op"] != b["acquisition_by_op"]:
                changed = [k for k in a["acquisition_by_op"] if a["acquisition_by_op"][k] != b["acquisition_by_op"].get(k)]
                acc.finding(f"flatten/library-acquisition/{ctor}", f"flattening a modifier-applied library circuit ({ctor} constructor) changed acquisition indices of measurements", case,
                            {"measurements_changed": len(changed)})
        if a["stim"] != b["stim"]:
            acc.finding(f"flatten/library-stim/{ctor}", f"flattening a modifier-applied library circuit ({ctor} constructor) changed the exported Stim program", case, None)
        if flat.composite_operations:
            acc.finding("flatten/sub-circuit-left", "a sub-circuit remains after flatten() (library)", case, None)
        # ---- twin: a second instance is unrolled and flattened WITHOUT being observed in between (the call pattern of the
        #      multi-round constructor); its program must be the one observed before flattening on the first instance
        if inp.get("multi_round"):
            twin = construct_repetition_code_multi_round_circuit(
                qec_cycles=inp["rounds"], description=libgen.description_of(inp), initial_state=libgen.initial_state_of(inp))
        else:
            twin = libgen.construct(inp)
        c = lib_snapshot(twin.apply_modifiers().flatten())
        acc.count("library_unobserved_flatten_checks")
        for key, what in (("listing", "listing order"), ("shadow", "schedule"), ("acquisition", "acquisition indices"), ("stim", "exported Stim program")):
            if a[key] != c[key]:
                acc.finding(f"flatten/library-unobserved-{key}/{ctor}",
                            f"flattening a modifier-applied library circuit ({ctor} constructor) that was not listed before gives a different {what} "
                            "than the circuit had before flattening", case, None)
                break
        if c["raw"] != c["shadow"]:
            acc.finding("stale-memo/flatten", "reported times after an unobserved flatten differ from the memo-free schedule", case, None)
    memo_shadow.drain()


def check_deep(shape, acc: Acc):
    """blocks x steps sequential operations on one qubit, nested as sibling sub-circuits: listing-only checks (no time reads)."""
    blocks, steps = shape
    kinds = ["Rx180", "Ry90", "Identity", "Reset", "Wait", "VirtualPhase"]
    circ = {"reps": 1, "steps": [{"sub": {"reps": 1, "steps": [{"k": kinds[(b + i) % len(kinds)], "q": [0]} for i in range(steps)]}} for b in range(blocks)]}
    prog = {"class": "deep", "circuit": circ, "settings": {}}
    case = {"program": {"class": "deep", "blocks": blocks, "steps": steps}}
    acc.case(f"deep-{blocks}x{steps}", True, sample=case["program"])
    built = bp.build(prog, bp.Ctx({}))
    circuit = built.top.circuit
    before = sorted(snap.op_sig(o) for o in circuit.operations)
    flat = circuit.flatten()
    acc.count("flatten_calls")
    acc.count("deep_flatten_depth", blocks * steps)
    ops = flat.operations
    after = sorted(snap.op_sig(o) for o in ops)
    acc.count("leaves_compared", len(before))
    if before != after:
        acc.finding("flatten/content", f"flattening a {blocks}x{steps} nested chain changed the multiset of leaf operations", case,
                    {"before": len(before), "after": len(after)})
    if flat.composite_operations:
        acc.finding("flatten/sub-circuit-left", "a sub-circuit remains after flatten() (deep)", case, None)
    ids = [id(o) for o in ops]
    if [id(o) for o in flat.flatten().operations] != ids:
        acc.finding("flatten/not-idempotent", "flattening a second time changes the listing (deep)", case, None)
    acc.count("second_flatten_checks")


def run_shard(shard: Dict[str, Any]) -> Acc:
    acc = Acc()
    rng = random.Random(shard["seed"])
    if shard["kind"] == "deep":
        for shape in shard["shapes"]:
            common.guarded(acc, check_deep, shape, acc)
        for cycles in shard["library_cycles"]:
            inp = {"constructor": "full", "description": "initial_state", "refocus": True, "distance": 3, "data_state": [0, 1, 0], "ancilla_state": None,
                   "cycles": cycles, "glob": {}}
            acc.case(bp.phash(inp), True, sample=inp)
            common.guarded(acc, check_library, inp, acc)
        return acc
    if shard["kind"] == "library":
        for i in range(shard["n"]):
            inp = libgen.gen_repcode_input(rng, max_distance=4, max_cycles=8, simplified_zero_cycles=True, composite_p=0.3, min_distance=1)
            if inp["distance"] == 1:
                # one data qubit, no ancilla: only the full constructor builds such a circuit (the simplified one has nothing to start from);
                # seeded change C11-r14 shows there: a sub-circuit opening with a Barrier right behind a Barrier
                inp["constructor"] = "full"
                acc.count("distance_1_inputs")
            elif i < 8:
                # directed corner: the simplified constructor with 0 cycles (a sub-circuit with repetition count 0)
                inp["constructor"], inp["cycles"] = "simplified", 0
                acc.count("simplified_zero_cycle_inputs")
            if rng.random() < 0.25 and inp["constructor"] == "full":
                inp["multi_round"] = True
                inp["rounds"] = rng.sample(range(0, 6), rng.randint(1, 3))
                inp["ancilla_state"] = None
            inp["glob"] = libgen.gen_global_settings(rng, default=rng.random() < 0.5)
            inp["duration_read_first"] = rng.random() < 0.5
            if rng.random() < 0.4:
                inp["read_under_other_override"] = libgen.gen_global_settings(rng)
            acc.hist("class", "library/" + ("multi_round" if inp.get("multi_round") else inp["constructor"]))
            acc.case(bp.phash(inp), True, sample=inp if i < 3 else None)
            common.guarded(acc, check_library, inp, acc, case={"library": inp})
        return acc
    classes = shard["classes"]
    for i in range(shard["n"]):
        cls = classes[i % len(classes)]
        prog = gen_case(rng, cls)
        acc.hist("class", cls)
        flags: Dict[str, Any] = {}
        common.guarded(acc, check_program, prog, acc, flags, case={"program": prog})
        acc.case(bp.phash(prog), bool(flags.get("nontrivial")), sample=prog if i < 40 else None)
    return acc


def replay(shard: Dict[str, Any]) -> Acc:
    acc = Acc()
    case = shard["case"]
    if "library" in case:
        check_library(case["library"], acc)
    else:
        check_program(case["program"], acc)
    acc.case("replay", True, sample=case)
    return acc
