"""C02 — Nothing lost, nothing duplicated: the operation listing is complete, causal and stable."""
import random
import warnings
from typing import Any, Dict, List

from qv import bp, gen, model as M, snap, memo_shadow, contracts
from qv.acc import Acc
from qv.props import common

HANDLES_MEMO = True

META = {
    "level": "exploration",
    "technique": "runtime monitoring: icontract graph invariants at every mutation + listing oracle (identity, multiset, causality, in-place contiguity, stability)",
    "rule": ("generated build programs of all classes (branching explicit relation graphs, nesting <= 3) plus single-chain programs up to the "
             "documented graph depth limit; distinct by structural hash; non-trivial = some operation has >= 2 relation children (branching) "
             "or nesting depth >= 2"),
    "assumptions": [
        "expected content = multiset of leaf signatures of the build program (reference model), direct leaves tracked by identity",
        "graph invariants read the private pointer lists of CircuitGraphBranch (hook at the mutator, not an API observation)",
    ],
    "floors": {
        "quick": {"operations_sharing_a_link_instance": 40, "unrolled_nested_listings_compared": 2500, "late_add_listings": 2500, "dangling_relation_adds": 8000, "late_add_through_nested_handle": 500, "listings_checked": 4000, "graph_invariant": 30000, "add_to_graph_post": 30000, "causality_pairs": 20000, "blocks_contiguity": 1500, "chain_length": 5000, "chains_at_depth_limit": 1},
        "thorough": {"listings_checked": 40000, "graph_invariant": 300000, "causality_pairs": 200000, "blocks_contiguity": 15000},
    },
}

CLASSES = ["implicit", "explicit", "zero", "nested", "nested_explicit", "allkinds", "measure", "wide", "deepnest"]


def plan(tier: str, seed: int) -> List[Dict[str, Any]]:
    total = 3600 if tier == "quick" else 60000
    shards = common.split_shards("gen", total, 15, seed, 2, classes=CLASSES)
    # "limit" = the longest chain inside the documented graph depth limit (MAX_GRAPH_DEPTH - 1 operations behind the root),
    # resolved from the library at run time; quick adds a short chain, thorough the neighbouring lengths as well
    lengths = [1000, "limit"] if tier == "quick" else [1000, 4990, "limit-1", "limit"]
    for k, depth in enumerate(lengths):
        shards.append({"kind": "chain", "n": 1, "seed": common.seed_base(seed, 22 + k), "hashseed": 0, "length": depth})
    return shards


def branching(level: List[M.MNode]) -> bool:
    for n in level:
        if n.nchildren >= 2:
            return True
        if n.is_block and branching(n.sub):
            return True
    return False


def check_listing(built: bp.Built, acc: Acc, case: Dict[str, Any], phase: str = "built", circuit=None, level_model=None):
    S = built.ctx.S
    circuit = circuit if circuit is not None else built.top.circuit
    level_model = level_model if level_model is not None else built.top.mnodes
    ops1 = circuit.operations
    ops2 = circuit.operations
    acc.count("listings_checked")
    acc.count("operations_observed", len(ops1))
    # stability: listing twice gives the same sequence of objects
    if len(ops1) != len(ops2) or any(a is not b for a, b in zip(ops1, ops2)):
        acc.finding("listing/unstable", f"two consecutive listings differ ({phase})", case, {"len1": len(ops1), "len2": len(ops2)})
    # no object twice
    ids = [id(o) for o in ops1]
    if len(set(ids)) != len(ids):
        acc.finding("listing/duplicate-object", f"one operation object is listed twice ({phase})", case, None)
    # only leaves
    if any(snap.is_composite(o) for o in ops1):
        acc.finding("listing/composite-listed", f"a sub-circuit appears in the listing instead of its content ({phase})", case, None)
    # completeness: multiset of signatures == program content
    A = [snap.op_sig(o) for o in ops1]
    B = [M.sig(n, S) for n, _, _ in M.leaf_records(level_model, S, 0.0)]
    only_a, only_b = snap.multiset_diff(A, B)
    if only_a or only_b:
        acc.finding(f"listing/content-{phase}", f"listing is not exactly the added operations ({phase})", case,
                    {"only_library": only_a[:4], "only_model": only_b[:4]})
    # identity of directly added leaves (as built only: unrolling keeps them too)
    index = {i: k for k, i in enumerate(ids)}
    for handle, child in zip(built.top.handles, built.top.children):
        if child is None:
            acc.count("direct_leaves_identity")
            if id(handle) not in index:
                acc.finding("listing/lost-direct-leaf", f"an operation added to the circuit is missing from its listing ({phase})", case,
                            {"op": type(handle).__name__})
    # causality via relation links
    for k, op in enumerate(ops1):
        li = snap.link_info(op)
        refs = []
        if li["kind"] == "single" and li["ref"] is not None:
            refs = [li["ref"]]
        elif li["kind"] == "multi" and li["refs"]:
            # a group relation refers to the latest-ending member (any of the latest on a tie)
            acc.count("causality_group_links")
            ends = snap.shadow_value(lambda: [float(r.end_time) for r in li["refs"]])
            top = max(ends)
            latest = [r for r, e in zip(li["refs"], ends) if abs(e - top) <= 1e-9]
            pos = [index.get(id(r)) for r in latest if not snap.is_composite(r)]
            comp = [r for r in latest if snap.is_composite(r)]
            if pos and all(p is not None for p in pos) and min(pos) < k:
                refs = []
            elif comp:
                refs = comp[:1]
            else:
                refs = latest[:1]
        for ref in refs:
            if snap.is_composite(ref):
                members = [index.get(id(x)) for x in snap.walk_leaves(ref)]
                acc.count("causality_block_refs")
                if any(m is None for m in members):
                    acc.finding("listing/dangling-block-reference", f"content of a referenced sub-circuit is missing from the listing ({phase})", case, None)
                    continue
                if members and max(members) >= k:
                    acc.finding("listing/causality", f"operation listed before the content of the sub-circuit its relation refers to ({phase})", case,
                                {"pos": k, "block_last": max(members)})
            else:
                j = index.get(id(ref))
                acc.count("causality_pairs")
                if j is None:
                    acc.finding("listing/dangling-reference", f"relation refers to an operation that is not in the listing ({phase})", case,
                                {"op": type(op).__name__, "ref": type(ref).__name__})
                elif j >= k:
                    acc.finding("listing/causality", f"operation listed before the operation its relation refers to ({phase})", case,
                                {"op": type(op).__name__, "pos": k, "ref_pos": j})
    # in-place expansion: the content of every sub-circuit is a contiguous run of the listing
    for path, comp in snap.walk_blocks(circuit.circuit_structure):
        members = [index.get(id(x)) for x in snap.walk_leaves(comp)]
        if not members:
            continue
        acc.count("blocks_contiguity")
        if any(m is None for m in members):
            acc.finding("listing/block-content-missing", f"content of a sub-circuit is missing from the listing ({phase})", case, {"path": list(path)})
        elif sorted(members) != list(range(min(members), min(members) + len(members))):
            acc.finding("listing/not-in-place", f"content of a sub-circuit is not expanded in place ({phase})", case, {"path": list(path)})
    return ops1


def check_program(prog: Dict[str, Any], acc: Acc, flags=None):
    ctx = bp.Ctx(prog.get("settings"))
    case = {"program": prog}
    flags = flags if flags is not None else {}
    if not contracts.install():
        acc.inconclusive.append("setup: icontract not importable")
        return
    with ctx.global_override():
        try:
            built = bp.build(prog, ctx)
        except (contracts.GraphBroken, contracts.AddBroken) as exc:
            acc.finding("graph/" + type(exc).__name__, f"graph invariant broken while building: {exc}", case, None)
            return
        acc.merge_counts({k: v for k, v in built.counters.items() if not k.startswith("kind_")})
        flags["branching"] = branching(built.top.mnodes)
        for v in built.link_violations:
            if "get_last_entry" in v["what"] or "add " in v["what"]:
                acc.finding("api/add-return", v["what"], case, v)
        check_listing(built, acc, case, "built")
        # ---- the listing follows later additions (made after it was read): through the circuit, then through a nested handle,
        #      with a listing after each (an addition through a handle goes past the DeclarativeCircuit front end)
        circuit0 = built.top.circuit
        content = sorted(snap.op_sig(o) for o in circuit0.operations)
        stages = [("circuit", None)]
        for h, child in zip(built.top.handles, built.top.children):
            if child is not None:
                stages.append(("nested-handle", h))
                break
        # "add the block first, fill it afterwards": an EMPTY sub-circuit is nested, operations go in through the returned handle
        from qce_circuit.language.declarative_circuit import DeclarativeCircuit as _DC
        stages.append(("empty-block-handle", circuit0.add(_DC())))
        stages.append(("empty-block-handle", stages[-1][1]))
        for how, handle in stages:
            op = bp.make_op({"k": "Rx180" if handle is None else "Ry90", "q": [0 if handle is None else 1]}, ctx, [built.top])
            if handle is None:
                circuit0.add(op)
            else:
                handle.add(op)
                acc.count("late_add_through_nested_handle")
            listed = circuit0.operations
            acc.count("late_add_listings")
            content = sorted(content + [snap.op_sig(op)])
            after = sorted(snap.op_sig(o) for o in listed)
            if after != content or not any(o is op for o in listed):
                only_a, only_b = snap.multiset_diff(after, content)
                acc.finding("listing/late-add-missing", f"an operation added ({how}) after the listing was read is not (exactly once) in the next listing", case,
                            {"only_listing": only_a[:4], "only_expected": only_b[:4]})
                break
        # ---- relations whose reference is not a member of the circuit that is added to (documented: such a relation is ignored, with
        #      a warning): reference inside an already nested sub-circuit, reference never added, reference added only later.
        #      Wherever the operation ends up, it is never listed before (or without) the operation its relation refers to.
        from qce_circuit.structure.intrf_circuit_operation import RelationLink, RelationType
        from qce_circuit.structure.circuit_operations import Rx90, Ry180
        listed_now = circuit0.operations
        direct = {id(h) for h in built.top.handles}
        nested_leaf = next((o for o in listed_now if id(o) not in direct), None)
        never_added = Ry180(0)
        later = Ry180(1)
        dangling = []
        for qubit, ref in ((11, nested_leaf), (12, never_added), (0, never_added), (13, later)):
            if ref is None:
                continue
            new_op = Rx90(qubit, relation=RelationLink(ref, RelationType.FOLLOWED_BY))
            with warnings.catch_warnings():
                warnings.simplefilter("ignore")
                circuit0.add(new_op)
            dangling.append(new_op)
        circuit0.add(later)
        listed2 = circuit0.operations
        pos = {id(o): k for k, o in enumerate(listed2)}
        for new_op in dangling:
            acc.count("dangling_relation_adds")
            li = snap.link_info(new_op)
            if id(new_op) not in pos:
                acc.finding("listing/late-add-missing", "an operation added with a relation to a non-member operation is missing from the listing", case, None)
            elif li["kind"] == "single" and li["ref"] is not None and not snap.is_composite(li["ref"]) and pos.get(id(li["ref"]), len(listed2)) >= pos[id(new_op)]:
                acc.finding("listing/causality-dangling", "an operation added with a relation to a non-member operation is listed before (or without) the operation its relation still refers to",
                            case, {"pos": pos[id(new_op)], "ref_pos": pos.get(id(li["ref"]))})
        # and once more after unrolling a fresh instance (listing of the unrolled circuit)
        built2 = bp.build(prog, bp.Ctx(prog.get("settings")))
        top_reps = M.reps_of(M.MNode(is_block=True, reps=prog["circuit"].get("reps", 1)), ctx.S)
        try:
            modified = built2.top.circuit.apply_modifiers()
        except (contracts.GraphBroken, contracts.AddBroken, contracts.ModifiersBroken) as exc:
            acc.finding("graph/" + type(exc).__name__, f"contract broken while unrolling: {exc}", case, None)
            return
        ustats: Dict[str, int] = {}
        unrolled_model = M.unroll(built2.top.mnodes, top_reps, ctx.S, ustats)
        sub = Acc()
        check_listing(built2, sub, case, "unrolled", circuit=modified, level_model=unrolled_model)
        acc.merge_counts(sub.counters)
        # a circuit nested into another one is expanded in place IN ITS OWN ORDER: the unrolled circuit (group relations between the copies)
        # nested into an empty circuit lists the same operation sequence as it lists itself (seeded change C02-r12: a copied group relation
        # kept only its latest-ending members and the copy was placed - and listed - earlier)
        own = [snap.op_sig(o) for o in modified.operations]
        if 0 < len(own) <= 300:
            from qce_circuit.language.declarative_circuit import DeclarativeCircuit
            outer = DeclarativeCircuit()
            outer.add(modified)
            nested = [snap.op_sig(o) for o in outer.operations]
            acc.count("unrolled_nested_listings_compared")
            if nested != own:
                k = next((i for i, (a, b) in enumerate(zip(nested, own)) if a != b), min(len(nested), len(own)))
                acc.finding("listing/nested-order", "an unrolled circuit nested into an empty circuit is not listed in its own order", case,
                            {"first_difference_at": k, "len_nested": len(nested), "len_own": len(own)})
        flip = ustats.get("unroll_flip", 0) > 0
        if flip:
            acc.count("programs_with_unroll_flip")
        for f in sub.findings:
            sig = f["sig"]
            if sig == "listing/causality" and flip:
                sig = "unroll-order/nested-repetition-changes-latest-leaf"
            acc.finding(sig, f["what"], f["case"], f["detail"])
    acc.merge_counts(contracts.drain())
    memo_shadow.drain()


def gen_case(rng: random.Random, cls: str) -> Dict[str, Any]:
    prog = gen.gen_program(rng, cls)
    if rng.random() < 0.2:
        prog["shared_link_twins"] = gen.add_shared_link_twins(rng, prog["circuit"])
    return prog


def chain_program(rng: random.Random, length: int) -> Dict[str, Any]:
    kinds = ["Rx180", "Ry90", "Identity", "Wait", "Reset", "VirtualPhase"]
    steps = [{"k": rng.choice(kinds), "q": [0]} for _ in range(length)]
    return {"class": "chain", "circuit": {"reps": 1, "steps": steps}, "settings": {}}


def run_chain(shard: Dict[str, Any], acc: Acc):
    """Single relation chain up to the documented depth limit: listing only (time queries on such chains exceed the
    interpreter recursion limit), contracts switched off while building (quadratic), invariant checked once at the end."""
    rng = random.Random(shard["seed"])
    if isinstance(shard["length"], str):
        from qce_circuit.structure.graph_traversal.intrf_graph_structure import MAX_GRAPH_DEPTH
        shard = dict(shard, length=MAX_GRAPH_DEPTH - 1 - (1 if shard["length"] == "limit-1" else 0))
        acc.count("chains_at_depth_limit")
    prog = chain_program(rng, shard["length"])
    case = {"program": {"class": "chain", "length": shard["length"], "seed": shard["seed"]}}
    contracts.ENABLED["graph"] = False
    try:
        built = bp.build(prog, bp.Ctx({}))
    finally:
        contracts.ENABLED["graph"] = True
    acc.case(bp.phash(prog), True, sample={"class": "chain", "length": shard["length"]})
    acc.hist("class", "chain")
    acc.count("chain_length", shard["length"])
    msg = contracts.graph_problem(built.top.circuit.circuit_structure._circuit_graph)
    acc.count("graph_invariant")
    if msg:
        acc.finding("graph/GraphBroken", f"graph invariant broken on deep chain: {msg}", case, None)
    ops = built.top.circuit.operations
    ops2 = built.top.circuit.operations
    acc.count("listings_checked")
    acc.count("operations_observed", len(ops))
    if len(ops) != shard["length"] or any(a is not b for a, b in zip(ops, built.top.handles)):
        acc.finding("listing/chain", f"listing of a {shard['length']}-operation chain is not the chain (length {len(ops)})", case, None)
    if any(a is not b for a, b in zip(ops, ops2)) or len(ops) != len(ops2):
        acc.finding("listing/unstable", "two consecutive listings differ (chain)", case, None)
    for v in built.link_violations:
        acc.finding("link/chain", v["what"], case, v)


def run_shard(shard: Dict[str, Any]) -> Acc:
    acc = Acc()
    if shard["kind"] == "chain":
        if not contracts.install():
            acc.inconclusive.append("setup: icontract not importable")
            return acc
        run_chain(shard, acc)
        acc.merge_counts(contracts.drain())
        return acc
    rng = random.Random(shard["seed"])
    classes = shard["classes"]
    for i in range(shard["n"]):
        cls = classes[i % len(classes)]
        prog = gen_case(rng, cls)
        st = bp.stats(prog["circuit"])
        acc.hist("class", cls)
        acc.hist("nesting_depth", st["depth"])
        flags: Dict[str, Any] = {}
        common.guarded(acc, check_program, prog, acc, flags, case={"program": prog})
        nontrivial = st["depth"] >= 2 or bool(flags.get("branching"))
        acc.case(bp.phash(prog), nontrivial, sample=prog if i < 40 else None)
    return acc


def replay(shard: Dict[str, Any]) -> Acc:
    acc = Acc()
    prog = shard["case"]["program"]
    if prog.get("class") == "chain" and "circuit" not in prog:
        run_chain({"seed": prog["seed"], "length": prog["length"]}, acc)
    else:
        check_program(prog, acc)
    acc.case("replay", True, sample=shard["case"])
    return acc
