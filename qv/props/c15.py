"""C15 — OpenQL export is the in-order image of the circuit."""
import os
import random
import re
import shutil
import tempfile
from typing import Any, Dict, List, Optional, Tuple

from qv import bp, gen, model as M, snap, memo_shadow
from qv.acc import Acc
from qv.props import common

HANDLES_MEMO = True

META = {
    "level": "exploration",
    "technique": "runtime monitoring: recording OpenQL platform (every kernel/program call logged, unknown calls rejected) linearised and compared with an independent translation of the listing; real OpenQL compile of a subset with the cQASM parsed back",
    "rule": ("build programs over all operation kinds (supported and unsupported by the exporter), flat and nested, repetition counts >= 1; each exported twice "
             "(names must agree); a subset additionally through the real OpenQL back end; distinct by structural hash; non-trivial = a sub-circuit that is neither "
             "first nor last in the listing, or a repetition count >= 2"),
    "assumptions": ["independent 13-entry instruction table written from the documentation; expected order is the operation listing with sub-circuits in place, "
                    "repeated their count; the real back end (qutechopenql 0.12.2) is trusted to write what it was given"],
    "floors": {
        "quick": {"barriers_with_repeated_qubit": 300, "exports_recorded": 5500, "instructions_compared": 50000, "compiled_by_openql": 450, "name_determinism_checks": 5500, "subcircuit_in_the_middle": 1500,
                  "repetition_ge_2": 1500, "unsupported_omitted": 10000, "cross_process_name_checks": 50},
        "thorough": {"exports_recorded": 55000, "compiled_by_openql": 4500},
    },
}

NAME_TABLE = {"Reset": "prepz", "Hadamard": "h", "Identity": "i", "DispersiveMeasure": "measure", "Rx180": "x180", "Rx90": "x90", "Rxm90": "mx90",
              "Ry180": "y180", "Ry90": "y90", "Rym90": "my90"}


def plan(tier: str, seed: int) -> List[Dict[str, Any]]:
    total = 6000 if tier == "quick" else 60000
    compiled = 600 if tier == "quick" else 6000
    shards = common.split_shards("gen", total, 16, seed, 15, classes=["allkinds", "nested_implicit", "measure", "allkinds"])
    for sh in shards:
        sh["compile_every"] = max(1, total // compiled)
    # names must not depend on the interpreter process: the same programs are exported in fresh processes with different hash seeds
    shards.append({"kind": "names", "n": 60 if tier == "quick" else 300, "seed": common.seed_base(seed, 151), "hashseed": 0,
                   "classes": ["allkinds", "nested_implicit", "measure"]})
    return shards


def gen_case(rng: random.Random, cls: str) -> Dict[str, Any]:
    prog = gen.gen_program(rng, cls, fields=True, reps=[1, 1, 2, 3], p_sub=0.25, max_depth=2, qubits=5)
    _repeat_barrier_qubits(rng, prog["circuit"])
    return prog


def _count_repeated(circ: Dict[str, Any]) -> int:
    return sum(_count_repeated(st["sub"]) if "sub" in st else int(bool(st.get("repeated_qubit"))) for st in circ["steps"])


def _repeat_barrier_qubits(rng: random.Random, circ: Dict[str, Any]) -> None:
    """A third of the barriers name one of their qubits twice (e.g. built from overlapping qubit groups): still ONE barrier over each of its
    qubits once (seeded change C15-r12: operands passed on without de-duplication)."""
    for st in circ["steps"]:
        if "sub" in st:
            _repeat_barrier_qubits(rng, st["sub"])
        elif st.get("k") == "Barrier" and st.get("q") and rng.random() < 0.33:
            qs = list(st["q"])
            qs.insert(rng.randint(0, len(qs)), rng.choice(qs))
            st["q"] = qs
            st["repeated_qubit"] = True


# ---- recording platform ----------------------------------------------------------------------------------

class RecKernel:
    def __init__(self, name: str):
        self.name = name
        self.calls: List[Tuple] = []

    def gate(self, name, qubits, *args, **kwargs):
        if args or kwargs:
            raise TypeError(f"unexpected gate arguments {args} {kwargs}")
        q = [qubits] if isinstance(qubits, int) else list(qubits)
        self.calls.append((name, tuple(q), None))

    def cz(self, q0, q1):
        self.calls.append(("cz", (q0, q1), None))

    def barrier(self, qubits):
        self.calls.append(("barrier", tuple(qubits), None))

    def wait(self, qubits, duration):
        self.calls.append(("wait", tuple(qubits), duration))

    def __getattr__(self, item):
        raise AttributeError(f"recording kernel: unexpected call {item}")


class RecProgram:
    def __init__(self, name: str):
        self.name = name
        self.entries: List[Tuple] = []

    def add_kernel(self, kernel):
        self.entries.append(("kernel", kernel, 1))

    def add_program(self, program):
        self.entries.append(("program", program, 1))

    def add_for(self, what, iterations):
        self.entries.append(("program" if isinstance(what, RecProgram) else "kernel", what, int(iterations)))

    def __getattr__(self, item):
        raise AttributeError(f"recording program: unexpected call {item}")

    def stream(self) -> List[Tuple]:
        out: List[Tuple] = []
        for kind, obj, n in self.entries:
            body = obj.stream() if kind == "program" else list(obj.calls)
            out.extend(body * n)
        return out

    def names(self) -> List[str]:
        out = [self.name]
        for kind, obj, n in self.entries:
            out.extend(obj.names() if kind == "program" else [obj.name])
        return out

    def flat_kernel_names(self) -> List[str]:
        """Names of all kernels/blocks that end up in one OpenQL program (must be unique there)."""
        out: List[str] = []
        for kind, obj, n in self.entries:
            if kind == "kernel":
                out.append(obj.name)
            elif n > 1:
                out.append(obj.name)        # a looped sub-program becomes one block named after the sub-program
            else:
                out.extend(obj.flat_kernel_names())
        return out


class _QLProxy:
    """Stands in for the `openql` module inside platform_manager: Program / Kernel construct recorders, everything else is the real module."""

    def __init__(self, real):
        self._real = real

    def Program(self, name, *args, **kwargs):
        return RecProgram(name)

    def Kernel(self, name, *args, **kwargs):
        return RecKernel(name)

    def __getattr__(self, item):
        return getattr(self._real, item)


class recording:
    """Context manager: the OpenQL classes PlatformManager instantiates are recorders.  PlatformManager.construct_program /
    construct_kernel themselves stay the library's own code (anything they keep between calls is under observation)."""

    def __enter__(self):
        import qce_circuit.addon_openql.platform_manager as pm
        self.pm = pm
        self.saved = pm.ql
        pm.ql = _QLProxy(pm.ql)
        return self

    def __exit__(self, *exc):
        self.pm.ql = self.saved
        return False


# ---- independent translation -----------------------------------------------------------------------------------

def translate(op, acc: Optional[Acc]) -> List[Tuple]:
    kind = type(op).__name__
    if kind in NAME_TABLE:
        return [(NAME_TABLE[kind], (op.qubit_index,), None)]
    if kind == "CPhase":
        c, t = op.control_qubit_index, op.target_qubit_index
        return [("cz", (c, t), None), ("barrier", (c, t), None), ("update_ph", (c,), None), ("update_ph", (t,), None)]
    if kind == "Barrier":
        return [("barrier", tuple(dict.fromkeys(op.qubit_indices)), None)]
    if kind == "Wait":
        return [("wait", (op.qubit_index,), int(op.duration))]
    if acc is not None:
        acc.count("unsupported_omitted")
    return []


def expected_stream(composite, acc: Optional[Acc], flags: Dict[str, Any], top: bool = True) -> List[Tuple]:
    out: List[Tuple] = []
    nodes = snap.walk_nodes(composite)
    for i, op in enumerate(nodes):
        if snap.is_composite(op):
            n = op.nr_of_repetitions
            if n >= 2:
                flags["repetition"] = True
            if 0 < i < len(nodes) - 1:
                flags["middle"] = True
            out.extend(expected_stream(op, acc, flags, False) * n)
        else:
            out.extend(translate(op, acc))
    return out


# ---- real back end ---------------------------------------------------------------------------------------

GATE_RE = re.compile(r"^\s*([a-z_0-9]+)\s*(.*)$")


def parse_cqasm(text: str) -> List[Tuple]:
    """Gate stream of an (unscheduled) cQASM 1.2 file written by OpenQL; foreach loops expanded."""
    lines = [ln.split("#")[0].rstrip() for ln in text.splitlines()]

    def parse_block(idx: int) -> Tuple[List[Tuple], int]:
        out: List[Tuple] = []
        while idx < len(lines):
            ln = lines[idx].strip()
            idx += 1
            if not ln or ln.startswith(("version", "pragma", "var", ".", "qubits")):
                continue
            if ln.startswith("}"):
                return out, idx
            m = re.match(r"foreach\s*\(\s*\w+\s*=\s*(-?\d+)\s*\.\.\s*(-?\d+)\s*\)\s*\{", ln)
            if m:
                a, b = int(m.group(1)), int(m.group(2))
                body, idx = parse_block(idx)
                out.extend(body * (abs(a - b) + 1))
                continue
            if ln.startswith("{") or ln.startswith("skip"):
                continue
            g = GATE_RE.match(ln)
            if not g:
                continue
            name, rest = g.group(1), g.group(2)
            qubits = tuple(int(x) for x in re.findall(r"q\[(\d+)\]", rest))
            extra = None
            if name == "wait":
                nums = re.findall(r"(?<![\[\d])(\d+)\s*$", rest)
                extra = int(nums[0]) if nums else None
            out.append((name, qubits, extra))
        return out, idx

    return parse_block(0)[0]


def compile_real(circuit, name: str, acc: Acc, case) -> Optional[List[Tuple]]:
    import openql as ql
    from qce_circuit.addon_openql.factory_manager import to_openql
    from qce_circuit.addon_openql.platform_manager import PlatformManager
    out_dir = tempfile.mkdtemp(prefix="qv_openql_")
    try:
        PlatformManager.openql_platform()          # make sure the singleton platform exists before redirecting the output
        ql.set_option("output_dir", out_dir)
        ql.set_option("log_level", "LOG_NOTHING")
        try:
            program = to_openql(circuit, circuit_id=name)
            program.compile()
        except Exception as exc:
            acc.finding("openql/real-backend-raises", f"the real OpenQL back end rejects the exported program of a valid circuit ({type(exc).__name__})", case,
                        {"error": str(exc).strip().splitlines()[-1][:200] if str(exc).strip() else ""})
            return None
        path = os.path.join(out_dir, f"{name}.qasm")
        if not os.path.exists(path):
            acc.inconclusive.append("openql wrote no cqasm file")
            return None
        return parse_cqasm(open(path).read())
    finally:
        shutil.rmtree(out_dir, ignore_errors=True)
        try:
            ql.set_option("output_dir", str(PlatformManager.openql_output_directory()))
        except Exception:
            pass


def kinds_census(built, acc: Acc, case) -> None:
    """The operations the exporter walks are the ones the build program added (kind by kind): an exporter can only be 'the image
    of the circuit' if the circuit it is handed still is the build program (copies made while nesting keep every kind)."""
    from collections import Counter
    lib = Counter(type(o).__name__ for o in snap.walk_leaves(built.top.circuit.circuit_structure))
    mod = Counter(n.kind for n, _, _ in M.leaf_records(built.top.mnodes, built.ctx.S, 0.0))
    acc.count("kind_census_checks")
    if lib != mod:
        acc.finding("export/circuit-differs-from-build-program", "the circuit handed to the exporter does not hold the operation kinds the build program added", case,
                    {"only_circuit": dict(lib - mod), "only_program": dict(mod - lib)})


def check_program(prog: Dict[str, Any], acc: Acc, flags=None, compile_it: bool = False):
    from qce_circuit.addon_openql.factory_manager import to_openql
    flags = flags if flags is not None else {}
    ctx = bp.Ctx(prog.get("settings"))
    case = {"program": prog}
    with ctx.global_override():
        built = bp.build(prog, ctx)
        circuit = built.top.circuit
        acc.count("barriers_with_repeated_qubit", _count_repeated(prog["circuit"]))
        kinds_census(built, acc, case)
        want = expected_stream(circuit.circuit_structure, acc, flags)
        if flags.get("middle"):
            acc.count("subcircuit_in_the_middle")
        if flags.get("repetition"):
            acc.count("repetition_ge_2")
        flags["nontrivial"] = bool(flags.get("middle") or flags.get("repetition"))
        with recording():
            try:
                rec1 = to_openql(circuit)
                rec2 = to_openql(circuit)
            except Exception as exc:
                acc.finding("openql/export-raises", f"to_openql raises {type(exc).__name__} on the recording platform", case, {"error": str(exc)[:200]})
                return
        acc.count("exports_recorded")
        got = rec1.stream()
        acc.count("instructions_compared", len(want))
        if got != want:
            if sorted(map(repr, got)) == sorted(map(repr, want)):
                k = next(i for i, (a, b) in enumerate(zip(got, want)) if a != b)
                sig = "openql/order" + ("/subcircuit" if bp.stats(prog["circuit"])["blocks"] else "/flat")
                acc.finding(sig, "exported OpenQL program does not execute the gates in listing order (sub-circuits at the position where they were added)", case,
                            {"pos": k, "exported": got[k], "expected": want[k]})
            else:
                only_a, only_b = snap.multiset_diff(got, want)
                name = (only_b or only_a)[0][0]
                sig = "openql/repetition" if flags.get("repetition") and len(got) != len(want) else f"openql/instruction/{name}"
                acc.finding(sig, "exported OpenQL program differs from the documented translation of the listing", case,
                            {"only_exported": only_a[:4], "only_expected": only_b[:4], "len": [len(got), len(want)]})
        acc.count("name_determinism_checks")
        if rec1.names() != rec2.names():
            acc.finding("openql/names-not-deterministic", "two exports of the same circuit give different program/kernel names", case,
                        {"first": rec1.names()[:4], "second": rec2.names()[:4]})
        flat = rec1.flat_kernel_names()
        if len(set(flat)) != len(flat):
            dup = sorted({n for n in flat if flat.count(n) > 1})
            acc.finding("openql/duplicate-kernel-name", "the exported program contains two kernels with the same name (OpenQL rejects it)", case, {"names": dup[:3]})
        if compile_it:
            real = compile_real(circuit, "qv_" + bp.phash(prog), acc, case)
            if real is not None:
                acc.count("compiled_by_openql")
                # OpenQL prints barriers/waits in its own form; compare the gate stream on names and qubits (+ wait duration)
                # OpenQL converts wait durations to platform cycles and writes a zero-length wait as a barrier
                alias = {"prep_z": "prepz", "measure_z": "measure", "measz": "measure"}     # cQASM spelling of the platform's instruction names
                norm_real = [(alias.get(n, n), q) for (n, q, e) in real]
                norm_got = [("barrier" if (n == "wait" and not e) else n, q) for (n, q, e) in got]
                if norm_real != norm_got:
                    k = next((i for i, (a, b) in enumerate(zip(norm_real, norm_got)) if a != b), min(len(norm_real), len(norm_got)))
                    acc.finding("openql/real-vs-recorded", "cQASM written by the real back end differs from the recorded call stream", case,
                                {"pos": k, "cqasm": norm_real[k] if k < len(norm_real) else None, "recorded": norm_got[k] if k < len(norm_got) else None,
                                 "len": [len(norm_real), len(norm_got)]})
    memo_shadow.drain()


NAMES_SCRIPT = """
import json, sys, warnings
sys.path.insert(0, %r)
from qv import env; env.bootstrap()
warnings.simplefilter('ignore')
from qv import bp
from qv.props import c15
from qce_circuit.addon_openql.factory_manager import to_openql
out = []
for prog in json.load(sys.stdin):
    built = bp.build(prog, bp.Ctx(prog.get('settings')))
    with c15.recording():
        out.append(to_openql(built.top.circuit).names())
print('NAMES ' + json.dumps(out))
"""


def run_names(shard: Dict[str, Any], acc: Acc):
    """Export the same programs in fresh interpreter processes with different hash seeds: names must be identical."""
    import json
    import subprocess
    import sys
    from qv import env
    rng = random.Random(shard["seed"])
    progs = [gen_case(rng, shard["classes"][i % len(shard["classes"])]) for i in range(shard["n"])]
    results = []
    for hs in (1, 2, 3):
        e = dict(os.environ)
        e["PYTHONHASHSEED"] = str(hs)
        r = subprocess.run([sys.executable, "-c", NAMES_SCRIPT % env.VERIF_DIR], input=json.dumps(progs), capture_output=True, text=True, env=e, timeout=900)
        line = [ln for ln in r.stdout.splitlines() if ln.startswith("NAMES ")]
        if not line:
            acc.inconclusive.append("names subprocess failed: " + r.stderr[-300:])
            return
        results.append(json.loads(line[0][6:]))
    for i, prog in enumerate(progs):
        acc.count("cross_process_name_checks")
        acc.case(bp.phash(prog), True, sample=prog if i < 2 else None)
        if not (results[0][i] == results[1][i] == results[2][i]):
            acc.finding("openql/names-depend-on-process", "the same circuit yields different program/kernel names in different interpreter processes (hash seeds)",
                        {"program": prog}, {"names": [results[k][i][:3] for k in range(3)]})


def run_shard(shard: Dict[str, Any]) -> Acc:
    acc = Acc()
    if shard.get("kind") == "names":
        run_names(shard, acc)
        return acc
    rng = random.Random(shard["seed"])
    classes = shard["classes"]
    for i in range(shard["n"]):
        cls = classes[i % len(classes)]
        prog = gen_case(rng, cls)
        acc.hist("class", cls)
        flags: Dict[str, Any] = {}
        common.guarded(acc, check_program, prog, acc, flags, i % shard.get("compile_every", 10) == 0, case={"program": prog})
        acc.case(bp.phash(prog), bool(flags.get("nontrivial")), sample=prog if i < 40 else None)
    return acc


def replay(shard: Dict[str, Any]) -> Acc:
    acc = Acc()
    check_program(shard["case"]["program"], acc, {}, True)
    acc.case("replay", True, sample=shard["case"])
    return acc
