"""C01 — Relation-based timing: every operation sits where its relation says."""
import random
from typing import Any, Dict, List

from qv import bp, gen, model as M, snap, memo_shadow
from qv.acc import Acc
from qv.props import common

HANDLES_MEMO = True

META = {
    "level": "exploration",
    "technique": "runtime monitors on the real API: per-add link observer + raw/shadow/model time oracle over generated build programs",
    "rule": ("build programs generated per hostile class (implicit, explicit, span, zero-length, nested, nested-explicit) under a random "
             "global duration override; a case is the (program, settings) pair, distinct by structural hash; non-trivial = contains an "
             "explicit JOINED_START/JOINED_END relation, or a nested block repeated >= 2 times, or a zero-length operation used as reference"),
    "assumptions": [
        "reference model qv/model.py (independent scheduler written from the property statement) is the specification",
        "correspondence between library listing and model is by multiset of (kind, qubits, channels, duration, tag, start, end)",
        "relation chains kept below 150 operations (deeper chains hit the interpreter recursion limit: inconclusive, not a verdict)",
    ],
    "floors": {
        "quick": {"flattened_then_nested": 2500, "unrolled_reread_after_registry_change": 500, "time_triples_compared": 20000, "implicit_links": 5000, "explicit_JOINED_END": 200, "explicit_JOINED_START": 200,
                  "eq_multi": 200, "unrolled_programs": 1000, "registry_reassignments": 800, "unrolled_then_nested": 3000},
        "thorough": {"time_triples_compared": 200000, "implicit_links": 50000, "explicit_JOINED_END": 2000, "eq_multi": 2000},
    },
}

CLASSES = ["implicit", "explicit", "span", "zero", "nested", "nested_explicit", "span-hostile", "wide", "long", "deepnest", "block_explicit", "block_explicit_je"]


def plan(tier: str, seed: int) -> List[Dict[str, Any]]:
    total = 6000 if tier == "quick" else 80000
    return common.split_shards("gen", total, 16, seed, 1, classes=CLASSES)


def check_program(prog: Dict[str, Any], acc: Acc):
    ctx = bp.Ctx(prog.get("settings"))
    case = {"program": prog}
    with ctx.global_override():
        built = bp.build(prog, ctx)
        acc.merge_counts(built.counters)
        for v in built.link_violations:
            acc.finding("link/" + ("explicit" if "explicit" in v["what"] else "implicit"), v["what"], case, v)
        info = common.compare_times(built, acc, "built", built.top.mnodes, case)
        common.local_equations(info["ops"], info["raw"], acc, case, "built")
        # ---- another duration assignment for the SAME circuit: every registry key is (re-)assigned - some for the first time, the
        #      library read its default 0.0 until now - and the operations listed before are read again, then a fresh listing
        if prog.get("reassign_registry"):
            for k, v in prog["reassign_registry"].items():
                ctx.duration_registry.set_registry_at(k, v)
                ctx.S.reg[k] = v
            acc.count("registry_reassignments")
            old_raw, old_sh = snap.raw_times(info["ops"]), snap.shadow_times(info["ops"])
            if any(abs(a[0] - b[0]) > common.TOL or abs(a[1] - b[1]) > common.TOL for a, b in zip(old_raw, old_sh)):
                acc.finding("stale-memo/registry-reassigned", "times reported after the registry durations were (re-)assigned differ from the memo-free evaluation", case,
                            {"reassigned": prog["reassign_registry"]})
            else:
                info_r = common.compare_times(built, acc, "reassigned", built.top.mnodes, case)
                common.local_equations(info_r["ops"], info_r["raw"], acc, case, "reassigned")
        # unroll a FRESH instance of the same program (observing before unrolling is a C03 history, not C01)
        built2 = bp.build(prog, bp.Ctx(prog.get("settings")))
        stats: Dict[str, int] = {}
        # the model is unrolled under the settings of the fresh instance (built2.ctx.S), not under the re-assigned registry of the first
        # one: which leaf ends latest - hence where the copies go - depends on the durations (false alarm of thorough seed 5, DESIGN.md 9.3)
        top_reps = M.reps_of(M.MNode(is_block=True, reps=prog["circuit"].get("reps", 1)), built2.ctx.S)
        unrolled_model = M.unroll(built2.top.mnodes, top_reps, built2.ctx.S, stats)
        modified = built2.top.circuit.apply_modifiers()
        acc.count("unrolled_programs")
        if stats.get("unroll_degenerate"):
            acc.count("unroll_degenerate_skipped")
        else:
            info2 = common.compare_times(built2, acc, "unrolled", unrolled_model, case, circuit=modified)
            common.local_equations(info2["ops"], info2["raw"], acc, case, "unrolled")
            # "the same equations hold through nesting and after repetitions are unrolled": the unrolled circuit nested (copied)
            # into an empty circuit still reports the same schedule
            if info2["ok"] and len(info2["ops"]) <= 200:
                from qce_circuit.language.declarative_circuit import DeclarativeCircuit
                outer = DeclarativeCircuit()
                outer.add(modified)
                acc.count("unrolled_then_nested")
                common.compare_times(built2, acc, "unrolled-nested", unrolled_model, case, circuit=outer)
                # ... and under ANOTHER duration assignment of the same, already listed unrolled circuit (which member of a group ends last -
                # hence where the next copy starts - may change; seeded change C01-r15 froze that choice in the links handed to the heads)
                if prog.get("reassign_registry"):
                    for k2, v2 in prog["reassign_registry"].items():
                        built2.ctx.duration_registry.set_registry_at(k2, v2)
                        built2.ctx.S.reg[k2] = v2
                    stats3: Dict[str, int] = {}
                    model3 = M.unroll(built2.top.mnodes, top_reps, built2.ctx.S, stats3)
                    if not stats3.get("unroll_degenerate"):
                        acc.count("unrolled_reread_after_registry_change")
                        common.compare_times(built2, acc, "unrolled-reassigned", model3, case, circuit=modified)
                # ... and so does the FLATTENED circuit (flatten turns relations to sub-circuits into group relations of any type): nested
                # into an empty circuit it reports the schedule it reports itself (seeded change C01-r12: a copied group link fell back to
                # FOLLOWED_BY).  Differential only: what flatten itself may change is C04 / C11 territory.
                try:
                    flat = modified.flatten()
                except RecursionError:
                    flat = None
                if flat is not None:
                    ops_f = flat.operations
                    rec_f = sorted(common.records_lib(ops_f, snap.shadow_times(ops_f)))
                    outer2 = DeclarativeCircuit()
                    outer2.add(flat)
                    ops_n = outer2.operations
                    rec_n = sorted(common.records_lib(ops_n, snap.shadow_times(ops_n)))
                    acc.count("flattened_then_nested")
                    if rec_f != rec_n:
                        only_a, only_b = snap.multiset_diff(rec_f, rec_n)
                        acc.finding("timing/flattened-nested", "a flattened circuit nested into an empty circuit does not report the schedule the flattened circuit reports", case,
                                    {"only_flattened": only_a[:3], "only_nested": only_b[:3]})
    memo = memo_shadow.drain()
    acc.count("memo_queries", memo["queries"])
    acc.count("memo_outermost_compared", memo["outermost"])
    if memo["discrepancy_count"]:
        acc.finding("stale-memo/monitor", "a time query answered from the process-wide memo differs from the memo-free evaluation",
                    case, memo["discrepancies"][:3])
    if memo["inconclusive"]:
        acc.count("shadow_recursion_inconclusive", memo["inconclusive"])


def gen_case(rng: random.Random, cls: str) -> Dict[str, Any]:
    if cls == "span-hostile":
        return gen.gen_span_hostile(rng)
    over = {"p_reg_dur": 0.4} if rng.random() < 0.3 else {}
    prog = gen.gen_program(rng, cls, **over)
    if over:
        prog["reassign_registry"] = {k: rng.choice(gen.DURS) for k in gen.REG_KEYS}
    return prog


def run_shard(shard: Dict[str, Any]) -> Acc:
    acc = Acc()
    rng = random.Random(shard["seed"])
    classes = shard["classes"]
    for i in range(shard["n"]):
        cls = classes[i % len(classes)]
        prog = gen_case(rng, cls)
        st = bp.stats(prog["circuit"])
        acc.hist("class", cls)
        acc.hist("nesting_depth", st["depth"])
        acc.hist("max_reps", st["max_reps"])
        nontrivial = common.program_nontrivial_c01(prog)
        acc.case(bp.phash(prog), nontrivial, sample=prog if i < 40 else None)
        if cls == "block_explicit_je":
            # known finding (DESIGN.md 9.2): a sub-circuit added through add_operation with a JOINED_END relation hands that relation
            # to its head operations, each of which then ENDS with the reference instead of starting with the block.  The class
            # exists to keep the finding observable; everything it reports is keyed by that mechanism.
            sub = Acc()
            common.guarded(sub, check_program, prog, sub, case={"program": prog})
            acc.merge_counts(sub.counters)
            acc.count("explicit_joined_end_block_programs")
            for f in sub.findings:
                acc.finding("explicit-block/JOINED_END", "a sub-circuit with an explicit JOINED_END relation does not end with its reference: its head operations do (" + f["sig"] + ")",
                            f["case"], f["detail"])
            continue
        common.guarded(acc, check_program, prog, acc, case={"program": prog})
    return acc


def replay(shard: Dict[str, Any]) -> Acc:
    acc = Acc()
    check_program(shard["case"]["program"], acc)
    acc.case("replay", True, sample=shard["case"])
    return acc
