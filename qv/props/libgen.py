"""Inputs for the library constructors (repetition code, calibration) and their construction through the public API."""
import random
from typing import Any, Dict, List, Optional, Tuple

LAYOUTS = ("Repetition9Code", "Repetition9Round6Code", "Repetition5Round4Code")
_CHAINS: Dict[str, List[str]] = {}


def layout(name: str):
    import qce_circuit.library.repetition_code.repetition_code_connectivity as m
    return getattr(m, name)()


def layout_chain(name: str) -> List[str]:
    """Alternating data/ancilla chain of a repetition layout, derived from its parity groups."""
    if name in _CHAINS:
        return _CHAINS[name]
    lay = layout(name)
    groups = list(lay.parity_group_x) + list(lay.parity_group_z)
    adj: Dict[str, List[Tuple[str, str]]] = {}
    for g in groups:
        a = g.ancilla_id.id
        d0, d1 = [q.id for q in g.data_ids]
        adj.setdefault(d0, []).append((a, d1))
        adj.setdefault(d1, []).append((a, d0))
    ends = sorted(d for d, nb in adj.items() if len(nb) == 1)
    if not ends:
        raise RuntimeError(f"layout {name} is not an open chain")
    chain = [ends[0]]
    prev_anc = None
    cur = ends[0]
    while True:
        nxt = [(a, d) for a, d in adj[cur] if a != prev_anc]
        if not nxt:
            break
        a, d = nxt[0]
        chain.extend([a, d])
        prev_anc, cur = a, d
    _CHAINS[name] = chain
    return chain


def subchains(name: str, max_distance: int = 9) -> List[List[str]]:
    """Every contiguous data-to-data sub-chain (both orientations) with 2..max_distance data qubits."""
    chain = layout_chain(name)
    out = []
    for i in range(0, len(chain), 2):
        for j in range(i + 2, len(chain), 2):
            d = (j - i) // 2 + 1
            if d > max_distance:
                continue
            seg = chain[i:j + 1]
            out.append(seg)
            out.append(list(reversed(seg)))
    return out


def gen_repcode_input(rng: random.Random, max_distance: int = 4, max_cycles: int = 8, constructors=("full", "full", "simplified"),
                      ancilla_states: bool = True, connectivity: bool = True, min_distance: int = 2,
                      simplified_zero_cycles: bool = False, composite_p: float = 0.0, custom_index_p: float = 0.0) -> Dict[str, Any]:
    constructor = rng.choice(constructors)
    mode = rng.choice(["initial_state", "chain", "connectivity"] if connectivity else ["initial_state", "chain"])
    inp: Dict[str, Any] = {"constructor": constructor, "description": mode, "refocus": rng.random() < 0.7}
    if mode == "connectivity":
        name = rng.choice(LAYOUTS)
        segs = subchains(name, max_distance)
        if min_distance <= 1 and rng.random() < 0.12:
            segs = [[q] for q in layout_chain(name)[::2]]      # a single data qubit: distance 1, no ancilla
        seg = rng.choice(segs)
        inp["layout"] = name
        inp["involved"] = seg
        d = (len(seg) + 1) // 2
    else:
        d = rng.randint(2, max_distance) if min_distance >= 2 or rng.random() >= 0.12 else 1
    inp["distance"] = d
    inp["data_state"] = [rng.randint(0, 1) for _ in range(d)]
    if ancilla_states and rng.random() < 0.4:
        inp["ancilla_state"] = [rng.randint(0, 1) for _ in range(d - 1)]
    else:
        inp["ancilla_state"] = None
    # 0 cycles of the simplified constructor is a sub-circuit with repetition count 0 (outside "counts >= 1" of C06 / C08 / C15)
    lo = 1 if constructor == "simplified" and not simplified_zero_cycles else 0
    inp["cycles"] = rng.randint(lo, max_cycles)
    if rng.random() < 0.15:
        inp["reuse_description"] = True
    r = rng.random()
    if r < 0.15:
        inp["state_container"] = "shuffled"
    elif r < 0.25 and mode != "initial_state":
        inp["state_container"] = "partial"      # (the distance of an initial-state description is the number of named qubits)
    if custom_index_p and mode == "connectivity" and rng.random() < custom_index_p:
        numbers = rng.sample(range(0, 24), len(inp["involved"]))
        inp["index_map"] = {q: n for q, n in zip(inp["involved"], numbers)}
    if composite_p and mode == "connectivity" and rng.random() < composite_p:
        inp["composite"] = gen_composite(rng, inp)
    return inp


def initial_state_of(inp: Dict[str, Any]):
    from qce_circuit.language import InitialStateContainer, InitialStateEnum
    enum = {0: InitialStateEnum.ZERO, 1: InitialStateEnum.ONE}
    data = [enum[b] for b in inp["data_state"]]
    anc = [enum[b] for b in inp["ancilla_state"]] if inp.get("ancilla_state") is not None else None
    how = inp.get("state_container", "ordered")
    if how == "ordered":
        return InitialStateContainer.from_ordered_list(data, anc)
    # the same request written as dictionaries: filled in another insertion order ("shuffled": descending), or only the
    # non-default entries ("partial": a qubit that is not named is prepared in the default state ZERO)
    items = list(enumerate(data))[::-1]
    anc_items = list(enumerate(anc or []))[::-1]
    if how == "partial":
        items = [(k, v) for k, v in items if v != InitialStateEnum.ZERO]
        anc_items = [(k, v) for k, v in anc_items if v != InitialStateEnum.ZERO]
    return InitialStateContainer(initial_states=dict(items), ancilla_initial_states=dict(anc_items))


def description_of(inp: Dict[str, Any]):
    from qce_circuit.library.repetition_code.circuit_components import RepetitionCodeDescription
    from qce_circuit.connectivity.intrf_channel_identifier import QubitIDObj
    mode = inp["description"]
    if mode == "initial_state":
        return RepetitionCodeDescription.from_initial_state(initial_state_of(inp), qubit_refocusing=inp.get("refocus", True))
    if mode == "chain":
        return RepetitionCodeDescription.from_chain(length=2 * inp["distance"] - 1, qubit_refocusing=inp.get("refocus", True))
    if mode == "connectivity":
        kwargs = {}
        if inp.get("index_map"):
            # caller-chosen circuit channels (e.g. hardware channel numbers), not the positions along the chain
            kwargs["qubit_index_map"] = {QubitIDObj(q): int(i) for q, i in inp["index_map"].items()}
        base = RepetitionCodeDescription.from_connectivity(
            involved_qubit_ids=[QubitIDObj(q) for q in inp["involved"]],
            connectivity=layout(inp["layout"]),
            qubit_refocusing=inp.get("refocus", True),
            **kwargs,
        )
        comp = inp.get("composite")
        if not comp:
            return base
        # the same chain described by a composite description with exclusions (a description the constructors accept as well)
        from qce_circuit.library.repetition_code.circuit_components import CompositeRepetitionCodeDescription
        from qce_circuit.connectivity.intrf_channel_identifier import EdgeIDObj
        inp["_base_description_object"] = base      # kept for checks that use the base again after the composite was evaluated
        return CompositeRepetitionCodeDescription(
            _base_description=base,
            _qubit_index_map={QubitIDObj(q): (int(inp["index_map"][q]) if inp.get("index_map") else i) for i, q in enumerate(inp["involved"])},
            _connectivity=layout(inp["layout"]),
            _exclude_gate_qubit_ids=[QubitIDObj(q) for q in comp.get("exclude_gate_qubits", [])],
            _exclude_gate_edge_ids=[EdgeIDObj(QubitIDObj(a), QubitIDObj(b)) for a, b in comp.get("exclude_gate_edges", [])],
            _exclude_rotation_qubit_ids=[QubitIDObj(q) for q in comp.get("exclude_rotation_qubits", [])],
            _only_required_parking_operations=bool(comp.get("only_required_parking", False)),
        )
    raise ValueError(mode)


def gen_composite(rng: random.Random, inp: Dict[str, Any]) -> Dict[str, Any]:
    """Exclusions for a composite description over the chain of a 'connectivity' input (readout exclusions are left out: the
    full constructor needs every measurement for its detectors)."""
    seg = inp["involved"]
    lay = layout(inp["layout"])
    inv = set(seg)
    edges = []
    for i in range(lay.gate_sequence_count):
        for op in lay.get_gate_sequence_at_index(i).gate_operations:
            a, b = [q.id for q in op.identifier.qubit_ids]
            if a in inv and b in inv:
                edges.append([a, b] if rng.random() < 0.5 else [b, a])
    comp: Dict[str, Any] = {}
    kind = rng.choice(["gate_qubit", "gate_edge", "rotation", "only_required", "mixed", "none"])
    if kind in ("gate_qubit", "mixed"):
        comp["exclude_gate_qubits"] = [rng.choice(seg)]
    if kind in ("gate_edge", "mixed") and edges:
        comp["exclude_gate_edges"] = rng.sample(edges, min(len(edges), rng.randint(1, 2)))
    if kind in ("rotation", "mixed"):
        comp["exclude_rotation_qubits"] = rng.sample(seg, min(len(seg), rng.randint(1, 2)))
    if kind in ("only_required", "mixed") and rng.random() < 0.7:
        comp["only_required_parking"] = True
    comp["kind"] = kind
    return comp


class CompositeNotConstructible(Exception):
    """The constructor rejects a composite description (e.g. every operation of a round excluded): no circuit, no verdict."""


def construct(inp: Dict[str, Any]):
    from qce_circuit.library.repetition_code.circuit_constructors import (
        construct_repetition_code_circuit, construct_repetition_code_circuit_simplified)
    fn = construct_repetition_code_circuit if inp["constructor"] == "full" else construct_repetition_code_circuit_simplified
    description = description_of(inp)
    if inp.get("reuse_description"):
        # one description object serves several constructions: an earlier construction (other constructor, other cycle count,
        # listed and unrolled) must not change what the next one builds
        other = construct_repetition_code_circuit_simplified if inp["constructor"] == "full" else construct_repetition_code_circuit
        try:
            warm = other(qec_cycles=inp["cycles"] + 1, description=description, initial_state=initial_state_of(inp))
            warm.apply_modifiers().operations
        except Exception:
            # the warm-up construction is not the subject (e.g. the simplified constructor has no distance-1 circuit); only its
            # effect on the description matters
            pass
        description.gate_sequences
    if not inp.get("composite"):
        return fn(qec_cycles=inp["cycles"], description=description, initial_state=initial_state_of(inp))
    try:
        return fn(qec_cycles=inp["cycles"], description=description, initial_state=initial_state_of(inp))
    except Exception as exc:
        raise CompositeNotConstructible(f"{type(exc).__name__}: {exc}") from exc


def gen_global_settings(rng: random.Random, default: bool = False) -> Dict[str, float]:
    if default:
        return {}
    grid = [0.25, 0.5, 1.0, 1.5, 2.0, 3.0, 5.0, 8.0]
    return {k: rng.choice(grid) for k in ("READOUT", "MICROWAVE", "FLUX", "RESET")}


def override(settings: Dict[str, float]):
    """Context manager: the library's temporary global-duration override with the given (possibly partial) table."""
    from qce_circuit.structure.registry_duration import temporary_override_get_registry_at, GlobalRegistryKey
    from qv.kinds import DEFAULT_GLOBAL
    table = dict(DEFAULT_GLOBAL)
    table.update(settings or {})
    return temporary_override_get_registry_at({GlobalRegistryKey[k]: float(v) for k, v in table.items()})
