"""C13 — Index kernels agree with the experiment circuit they describe."""
import random
from typing import Any, Dict, List

from qv import bp, memo_shadow
from qv.acc import Acc
from qv.props import common, libgen

HANDLES_MEMO = True

META = {
    "level": "exploration",
    "technique": "runtime monitoring: differential between two independent encodings of one experiment (constructed multi-round circuit's tagged acquisition indices vs RepetitionExperimentKernel getters)",
    "rule": ("construct_repetition_code_multi_round_circuit over lists of distinct round counts in 0..6 (length 1-4), distance 2-4, random computational states, "
             "descriptions from a chain length and from contiguous sub-chains of the shipped layouts; kernel with heralded initialisation, qutrit calibration "
             "points and one experiment repetition; distinct by input hash; non-trivial = the list contains a 0 or a 1 and another value"),
    "assumptions": ["both sides are library code; the oracle is their agreement as stated (heralded, stabilizer+projected, calibration, cycle length; 0-round exception)"],
    "floors": {
        "quick": {"handed_rounds_lists_changed": 60, "experiments": 380, "order_kernel_first": 80, "long_round_blocks": 3, "custom_index_maps": 30, "prior_kernel_same_rounds": 120, "all_qubits_queried_first": 120, "order_kernel_between_two_circuits": 80, "ancillas_compared": 600, "zero_round_blocks": 80, "one_round_blocks": 80},
        "thorough": {"experiments": 3900, "ancillas_compared": 6000, "zero_round_blocks": 800, "one_round_blocks": 800},
    },
}


def plan(tier: str, seed: int) -> List[Dict[str, Any]]:
    total = 400 if tier == "quick" else 4000
    return common.split_shards("gen", total, 16, seed, 13)


def gen_input(rng: random.Random) -> Dict[str, Any]:
    inp = libgen.gen_repcode_input(rng, max_distance=4, max_cycles=6, constructors=("full",), ancilla_states=False, custom_index_p=0.4)
    length = rng.randint(1, 4)
    inp["rounds"] = rng.sample(range(0, 7), length)
    if rng.random() < 0.5 and length >= 2:
        inp["rounds"][rng.randrange(length)] = rng.choice([v for v in (0, 1) if v not in inp["rounds"]] or [inp["rounds"][0]])
        inp["rounds"] = list(dict.fromkeys(inp["rounds"]))
    inp["order"] = rng.choice(["circuit_first", "kernel_first", "kernel_between_two_circuits"])
    inp["query_all_first"] = rng.random() < 0.5
    inp["edit_handed_rounds"] = rng.choice([None, None, "sort", "reverse", "clear"])
    inp["prior_kernel_same_rounds"] = rng.random() < 0.5
    return inp


def check_input(inp: Dict[str, Any], acc: Acc):
    import numpy as np
    from qce_circuit.library.repetition_code.circuit_constructors import construct_repetition_code_multi_round_circuit
    from qce_circuit.structure.acquisition_indexing.kernel_repetition_code import RepetitionExperimentKernel
    from qce_circuit.structure.acquisition_indexing.intrf_stabilizer_index_kernel import StateKey
    from qce_circuit.structure.intrf_acquisition_operation import AcquisitionTag
    case = {"library": inp}
    if inp.get("index_map"):
        acc.count("custom_index_maps")
    rounds = inp["rounds"]
    description = libgen.description_of(inp)
    ids_before = ([q.id for q in description.data_qubit_ids], [q.id for q in description.ancilla_qubit_ids])
    # kernel and circuit are each handed their own list object, which the caller re-uses (sorts / reverses / empties) once both exist:
    # the experiment they describe is the one at construction (seeded changes C12-r11 / C13-r12: getters reading the caller's live list)
    handed_kernel, handed_circuit = list(rounds), list(rounds)

    def make_kernel():
        return RepetitionExperimentKernel(rounds=handed_kernel, heralded_initialization=True, qutrit_calibration_points=True,
                                          involved_data_qubit_ids=description.data_qubit_ids, involved_ancilla_qubit_ids=description.ancilla_qubit_ids,
                                          experiment_repetitions=1)

    def make_circuit():
        return construct_repetition_code_multi_round_circuit(qec_cycles=handed_circuit, description=description, initial_state=libgen.initial_state_of(inp))

    # other experiments of the same process: a kernel for the same rounds on a smaller, differently named register is built first
    if inp.get("prior_kernel_same_rounds"):
        from qce_circuit.connectivity.intrf_channel_identifier import QubitIDObj
        acc.count("prior_kernel_same_rounds")
        RepetitionExperimentKernel(rounds=list(rounds), heralded_initialization=True, qutrit_calibration_points=True,
                                   involved_data_qubit_ids=[QubitIDObj("P0"), QubitIDObj("P2")], involved_ancilla_qubit_ids=[QubitIDObj("P1")],
                                   experiment_repetitions=1).kernel_cycle_length
    # the statement does not prescribe which of the two is built first from one description
    order = inp.get("order", "circuit_first")
    acc.count("order_" + order)
    if order == "kernel_first":
        kernel = make_kernel()
        circuit = make_circuit()
    elif order == "kernel_between_two_circuits":
        first = make_circuit()
        kernel = make_kernel()
        circuit = make_circuit()
        if len(first.operations) != len(circuit.operations):
            acc.finding("description/reuse", "a second experiment circuit built from the same description (after the kernel) differs from the first", case,
                        {"first": len(first.operations), "second": len(circuit.operations)})
    else:
        circuit = make_circuit()
        kernel = make_kernel()
    if inp.get("edit_handed_rounds"):
        for lst in (handed_kernel, handed_circuit):
            {"sort": lst.sort, "reverse": lst.reverse, "clear": lst.clear}[inp["edit_handed_rounds"]]()
        acc.count("handed_rounds_lists_edited")
        if handed_kernel != list(rounds):
            acc.count("handed_rounds_lists_changed")
    ids_after = ([q.id for q in description.data_qubit_ids], [q.id for q in description.ancilla_qubit_ids])
    if ids_after != ids_before:
        acc.finding("description/changed", "constructing the kernel / circuit changed the qubit lists of the description", case, {"before": ids_before, "after": ids_after})
    acc.count("experiments")
    acc.count("zero_round_blocks", rounds.count(0))
    acc.count("one_round_blocks", rounds.count(1))
    cycle = kernel.kernel_cycle_length
    states = (StateKey.STATE_0, StateKey.STATE_1, StateKey.STATE_2)

    def flat(x) -> List[int]:
        return sorted(int(v) for v in np.asarray(x).ravel())

    # every getter is first asked for every qubit in chain order (data qubits before ancillas): what an ancilla is told afterwards
    # must not depend on earlier queries for other qubits
    if inp.get("query_all_first"):
        acc.count("all_qubits_queried_first")
        for qid in description.qubit_ids:
            for n in rounds:
                kernel.get_heralded_cycle_acquisition_indices(qubit_id=qid, cycle_stabilizer_count=n)
                kernel.get_stabilizer_and_projected_cycle_acquisition_indices(qubit_id=qid, cycle_stabilizer_count=n)
                kernel.get_projected_cycle_acquisition_indices(qubit_id=qid, cycle_stabilizer_count=n)
            for st in states:
                kernel.get_heralded_calibration_acquisition_indices(qubit_id=qid, state=st)
                kernel.get_projected_calibration_acquisition_indices(qubit_id=qid, state=st)
    for qid in description.ancilla_qubit_ids:
        idx = description.map_qubit_id_to_circuit_index(qid)
        acc.count("ancillas_compared")
        got = {tag: flat(circuit.get_acquisition_indices(AcquisitionTag(qubit_index=idx, tag=tag))) for tag in ("heralded", "parity", "final")}
        total = flat(circuit.get_acquisition_indices(idx))
        k_heralded: List[int] = []
        k_parity: List[int] = []
        for n in rounds:
            k_heralded += flat(kernel.get_heralded_cycle_acquisition_indices(qubit_id=qid, cycle_stabilizer_count=n))
            k_parity += flat(kernel.get_stabilizer_and_projected_cycle_acquisition_indices(qubit_id=qid, cycle_stabilizer_count=n))
        k_cal_her: List[int] = []
        k_cal: List[int] = []
        for s in states:
            k_cal_her += flat(kernel.get_heralded_calibration_acquisition_indices(qubit_id=qid, state=s))
            k_cal += flat(kernel.get_projected_calibration_acquisition_indices(qubit_id=qid, state=s))
        # documented exception: in a 0-round block the circuit measures the ancilla once (tag 'final'), the kernel reports no projected index
        zero_slots = [k.start_index + 1 for k, n in zip(kernel.indexing_kernels[:-1], rounds) if n == 0]
        detail = {"ancilla": qid.id, "rounds": rounds}
        if got["heralded"] != sorted(k_heralded + k_cal_her):
            acc.finding("mismatch/heralded", "heralded acquisition indices of the circuit differ from the kernel's heralded (cycle + calibration) indices", case,
                        {**detail, "circuit": got["heralded"], "kernel": sorted(k_heralded + k_cal_her)})
        if got["parity"] != sorted(k_parity):
            acc.finding("mismatch/parity", "parity acquisition indices of the circuit differ from the kernel's stabilizer+projected indices", case,
                        {**detail, "circuit": got["parity"], "kernel": sorted(k_parity)})
        if got["final"] != sorted(k_cal + zero_slots):
            acc.finding("mismatch/final", "final acquisition indices of the circuit differ from the kernel's calibration indices (+ one per 0-round block)", case,
                        {**detail, "circuit": got["final"], "kernel": sorted(k_cal + zero_slots)})
        if len(total) != cycle or total != list(range(cycle)):
            acc.finding("mismatch/cycle-length", "number of acquisitions of an ancilla differs from the kernel cycle length", case,
                        {**detail, "circuit": len(total), "kernel_cycle_length": cycle})
    memo_shadow.drain()


def check_program(inp: Dict[str, Any], acc: Acc):
    check_input(inp, acc)


def run_shard(shard: Dict[str, Any]) -> Acc:
    acc = Acc()
    rng = random.Random(shard["seed"])
    for i in range(shard["n"]):
        inp = gen_input(rng)
        if i == 0 and shard.get("index", 0) % 4 == 0:
            # directed corner: one block with a large round count (a deep flattened relation chain), short chain descriptions only
            inp.update({"description": "chain", "distance": 2, "data_state": inp["data_state"][:2], "ancilla_state": None,
                        "rounds": [rng.choice([27, 29, 31, 33])] + ([2] if rng.random() < 0.5 else [])})
            inp.pop("layout", None), inp.pop("involved", None), inp.pop("composite", None)
            acc.count("long_round_blocks")
        r = inp["rounds"]
        acc.hist("rounds_length", len(r))
        acc.hist("distance", inp["distance"])
        acc.case(bp.phash(inp), (0 in r or 1 in r) and len(r) >= 2, sample=inp)
        common.guarded(acc, check_input, inp, acc, case={"library": inp})
    return acc


def replay(shard: Dict[str, Any]) -> Acc:
    acc = Acc()
    check_input(shard["case"]["library"], acc)
    acc.case("replay", True, sample=shard["case"])
    return acc
