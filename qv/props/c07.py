"""C07 — Acquisition indices enumerate measurements exactly, in order."""
import random
from typing import Any, Dict, List, Tuple

from qv import bp, gen, model as M, snap, memo_shadow
from qv.acc import Acc
from qv.props import common, libgen

HANDLES_MEMO = True
TOL = 1e-7

META = {
    "level": "exploration",
    "technique": "runtime monitoring: acquisition-index observer over the unrolled listing (dense numbering, filters, tag partition, export order, time monotonicity)",
    "rule": ("measure-heavy build programs (qubits 0-3 interleaved, tags {'',a,b,c}, measurements created against the registry of their own circuit or of an "
             "enclosing circuit, nesting <= 3, counts <= 3), built, unrolled and only then observed; implicit overlap-free programs and library circuits for "
             "the monotonicity clause; distinct by structural hash; non-trivial = >= 2 measured qubits interleaved and (nesting >= 2 or product of counts >= 4)"),
    "assumptions": ["numbering oracle is the statement itself (dense 0..N-1 along the listing); Stim's text/flattened form is trusted for the export-order clause"],
    "floors": {
        "quick": {"schedules_read_under_other_durations_first": 2000, "flattened_export_order_checked": 2500, "nested_unrolled_monotonic_circuits": 600, "measurements_observed": 30000, "tag_filters_checked": 15000, "export_order_checked": 3000, "monotonic_circuits": 300, "library_circuits": 40},
        "thorough": {"measurements_observed": 300000, "tag_filters_checked": 150000, "export_order_checked": 30000, "monotonic_circuits": 3000},
    },
}

CLASSES = ["measure", "measure", "measure", "implicit_measure"]


def plan(tier: str, seed: int) -> List[Dict[str, Any]]:
    total = 4000 if tier == "quick" else 50000
    shards = common.split_shards("gen", total, 15, seed, 7, classes=CLASSES)
    shards.append({"kind": "library", "n": 60 if tier == "quick" else 500, "seed": common.seed_base(seed, 77), "hashseed": 0})
    return shards


def gen_case(rng: random.Random, cls: str) -> Dict[str, Any]:
    if cls == "implicit_measure":
        kinds = ["DispersiveMeasure", "Rx180", "Ry90", "Reset", "CPhase", "Barrier", "Wait", "Identity", "VirtualPark", "Hadamard"]
        return gen.gen_program(rng, "implicit", kinds=kinds, p_measure=0.35, p_cfg_kind=0.1, steps=(4, 16), p_zero_dur=0.0)
    return gen.gen_program(rng, "measure", reps=[1, 1, 2, 3], p_measure=0.5)


def interleaved(qs: List[int]) -> bool:
    """>= 2 qubits whose measurements alternate somewhere along the listing."""
    if len(set(qs)) < 2:
        return False
    first_last: Dict[int, Tuple[int, int]] = {}
    for i, q in enumerate(qs):
        a, _ = first_last.get(q, (i, i))
        first_last[q] = (a, i)
    spans = sorted(first_last.values())
    return any(spans[k][1] > spans[k + 1][0] for k in range(len(spans) - 1))


def check_indices(circuit, acc: Acc, case: Dict[str, Any], prefix: str = "") -> List[Any]:
    from qce_circuit.structure.intrf_acquisition_operation import IAcquisitionOperation, AcquisitionTag
    ops = circuit.operations
    measures = [op for op in ops if isinstance(op, IAcquisitionOperation)]
    acc.count("measurements_observed", len(measures))
    circuit_level = [op.circuit_level_acquisition_index for op in measures]
    if circuit_level != list(range(len(measures))):
        sig = "index/unregistered" if any(i < 0 for i in circuit_level) else "index/circuit-level"
        acc.finding(prefix + sig, "circuit-level acquisition indices are not 0..N-1 along the listing", case, {"indices": circuit_level[:24]})
    per_q: Dict[int, List[int]] = {}
    per_qt: Dict[Tuple[int, str], List[int]] = {}
    for op in measures:
        per_q.setdefault(op.qubit_index, []).append(op.acquisition_index)
        per_qt.setdefault((op.qubit_index, op.acquisition_tag), []).append(op.acquisition_index)
    for q, idx in per_q.items():
        if idx != list(range(len(idx))):
            sig = "index/unregistered" if any(i < 0 for i in idx) else "index/per-qubit"
            acc.finding(prefix + sig, "per-qubit acquisition indices are not 0..n-1 along the listing", case, {"qubit": q, "indices": idx[:24]})
        got = [int(v) for v in circuit.get_acquisition_indices(q)]
        acc.count("qubit_filters_checked")
        if got != idx:
            acc.finding(prefix + "filter/qubit", "get_acquisition_indices(qubit) does not return the indices of that qubit's measurements in order", case,
                        {"qubit": q, "returned": got[:24], "expected": idx[:24]})
    # an unmeasured qubit yields nothing
    if len(circuit.get_acquisition_indices(99)) != 0:
        acc.finding(prefix + "filter/qubit", "get_acquisition_indices of an unmeasured qubit is not empty", case, None)
    for (q, tag), idx in per_qt.items():
        got = [int(v) for v in circuit.get_acquisition_indices(AcquisitionTag(qubit_index=q, tag=tag))]
        acc.count("tag_filters_checked")
        if got != idx:
            acc.finding(prefix + "filter/tag", "get_acquisition_indices(qubit, tag) does not return exactly the matching measurements", case,
                        {"qubit": q, "tag": tag, "returned": got[:24], "expected": idx[:24]})
    for q, idx in per_q.items():
        parts = [v for (qq, _), lst in per_qt.items() if qq == q for v in lst]
        if sorted(parts) != sorted(idx) or len(set(parts)) != len(parts):
            acc.finding(prefix + "filter/tag-partition", "tags do not partition a qubit's acquisition indices", case, {"qubit": q})
    return measures


def check_export_order(circuit, measures, acc: Acc, case: Dict[str, Any]):
    from qce_circuit.addon_stim.factory_manager import to_stim
    try:
        flat = to_stim(circuit).flattened()
    except ValueError:
        acc.count("export_raised_ValueError")
        return
    targets = [t.value for inst in flat if inst.name == "M" for t in inst.targets_copy()]
    acc.count("export_order_checked")
    want = [op.qubit_index for op in measures]
    if targets != want:
        acc.finding("export/measurement-order", "the k-th measurement of the exported record is not the measurement with circuit-level index k", case,
                    {"exported": targets[:24], "expected": want[:24]})


def overlap_free(ops, times) -> bool:
    n = len(ops)
    chans = [snap.op_channels(o) for o in ops]
    for i in range(n):
        for j in range(i + 1, n):
            if times[i][1] - times[i][0] <= 0 or times[j][1] - times[j][0] <= 0:
                continue
            if times[i][0] < times[j][1] - TOL and times[j][0] < times[i][1] - TOL:
                if any(a[0] == b[0] and (a[1] == b[1] or "ALL" in (a[1], b[1])) for a in chans[i] for b in chans[j]):
                    return False
    return True


def check_monotonic(circuit, measures, acc: Acc, case: Dict[str, Any], require_overlap_free: bool):
    ops = circuit.operations
    if len(ops) > 400:
        return
    # the precondition ("free of channel overlaps") is decided on the memo-free evaluation of the relation equations; the conclusion on
    # the times a caller reads (through the process-wide memo).  Seeded change C07-r11: colliding memo keys gave two copies one start time.
    times = snap.shadow_times(ops)
    if require_overlap_free and not overlap_free(ops, times):
        acc.count("monotonic_skipped_overlap")
        return
    acc.count("monotonic_circuits")
    raw = snap.raw_times(ops)
    for label, tt in (("", times), ("/as-read", raw)):
        span = {id(o): t for o, t in zip(ops, tt)}
        per_q: Dict[int, List[Tuple[int, float, float]]] = {}
        for op in measures:
            per_q.setdefault(op.qubit_index, []).append((op.acquisition_index, span[id(op)][0], span[id(op)][1]))
        found = False
        for q, lst in per_q.items():
            lst.sort()
            backwards = any(lst[k + 1][1] < lst[k][1] - TOL for k in range(len(lst) - 1))
            # in an overlap-free circuit two measurements of one qubit that take time cannot share their time window either
            stacked = require_overlap_free and any(lst[k][2] - lst[k][1] > TOL and lst[k + 1][2] - lst[k + 1][1] > TOL and lst[k + 1][1] < lst[k][2] - TOL
                                                   for k in range(len(lst) - 1))
            if backwards or stacked:
                found = True
                acc.finding("index/not-monotonic-in-time" + label, "per-qubit acquisition indices do not increase with measurement start time"
                            + (" (times as read through the memo; the memo-free evaluation is in order)" if label else ""), case,
                            {"qubit": q, "index_start": [x[:2] for x in lst[:12]]})
        if found:
            break


def check_program(prog: Dict[str, Any], acc: Acc, flags=None):
    flags = flags if flags is not None else {}
    ctx = bp.Ctx(prog.get("settings"))
    case = {"program": prog}
    with ctx.global_override():
        built = bp.build(prog, ctx)
        modified = built.top.circuit.apply_modifiers()
        measures = check_indices(modified, acc, case)
        check_export_order(modified, measures, acc, case)
        # the schedule is looked at once under other gate durations (the library's temporary override) before the time clause is evaluated
        # under the program's own settings: what is read afterwards is what the clause is about (seeded change C07-r14: no memo clear on exit)
        if measures and len(modified.operations) <= 400:
            from qce_circuit.structure.registry_duration import temporary_override_get_registry_at, GlobalRegistryKey
            other = {GlobalRegistryKey[k]: float(v) * f for (k, v), f in zip(sorted(ctx.S.glob.items()), (0.5, 2.0, 0.25, 3.0))}
            with temporary_override_get_registry_at(other):
                snap.raw_times(modified.operations)
            acc.count("schedules_read_under_other_durations_first")
        st = bp.stats(prog["circuit"])
        if st["explicit"] == 0 and st["blocks"] == 0:
            check_monotonic(modified, measures, acc, case, require_overlap_free=True)
            # the unrolled circuit nested (copied) into an empty circuit: same enumeration, same order in time (seeded change C07-r11: group
            # links created back to back compared equal, so copies of the unrolled heads shared one memoized start time)
            from qce_circuit.language.declarative_circuit import DeclarativeCircuit
            outer = DeclarativeCircuit()
            outer.add(modified)
            sub = Acc()
            measures_n = check_indices(outer, sub, case)
            check_monotonic(outer, measures_n, sub, case, require_overlap_free=True)
            acc.merge_counts({"nested_unrolled_" + k: v for k, v in sub.counters.items()})
            for f in sub.findings:
                acc.finding(f["sig"] + "/unrolled-then-nested", f["what"] + " (unrolled circuit nested into an empty circuit)", f["case"], f["detail"])
        elif st["explicit"] == 0 and all(float(m.duration) > TOL for m in measures):
            # nested, implicitly sequenced: "free of channel overlaps" is only meaningful when measurements have a length (two
            # zero-length measurements on one channel never overlap, whatever their order)
            acc.count("monotonic_candidates_with_nesting")
            sub = Acc()
            check_monotonic(modified, measures, sub, case, require_overlap_free=True)
            acc.merge_counts(sub.counters)
            if sub.findings:
                # Is the circuit scheduled exactly as the placement rule prescribes (every time equals the reference model's)?  Then
                # the order defect is inherent to the rule (a multi-qubit sub-circuit follows ONE predecessor, its measurements on the
                # other qubits may come before later-indexed ones without overlapping them): known finding.  Otherwise something
                # placed an operation differently: violation.
                stats: Dict[str, int] = {}
                top_reps = M.reps_of(M.MNode(is_block=True, reps=prog["circuit"].get("reps", 1)), ctx.S)
                unrolled_model = M.unroll(built.top.mnodes, top_reps, ctx.S, stats)
                ops_m = modified.operations
                lib = common.records_lib(ops_m, snap.shadow_times(ops_m))
                only_a, only_b = snap.multiset_diff(lib, common.records_model(unrolled_model, ctx.S))
                inherent = (not (only_a or only_b) or bool(stats.get("unroll_degenerate"))) and not built.link_violations
                for f in sub.findings:
                    acc.finding(f["sig"] + ("/nested-placement-rule" if inherent else ""), f["what"], f["case"], f["detail"])
        # ---- the same circuit flattened (flatten removes the nesting of a circuit whose modifiers are applied): the ENUMERATION clauses -
        #      0..N-1 along the (new) listing, filters, export order - hold for it as well; the time clause is not evaluated here (9.3).
        #      Seeded change C07-r12: flatten returned a new structure while the measurements' registries kept enumerating the nested one.
        if prog.get("flatten_too", True) and len(measures) <= 60:
            fresh = bp.build(prog, bp.Ctx(prog.get("settings"))).top.circuit.apply_modifiers()
            try:
                flat = fresh.flatten()
            except RecursionError:
                flat = None
            if flat is not None:
                sub = Acc()
                measures_f = check_indices(flat, sub, case, prefix="flattened/")
                check_export_order(flat, measures_f, sub, case)
                acc.merge_counts({"flattened_" + k: v for k, v in sub.counters.items()})
                for f in sub.findings:
                    acc.finding(f["sig"] if f["sig"].startswith("flattened/") else "flattened/" + f["sig"], f["what"] + " (flattened circuit)", f["case"], f["detail"])
        qs = [m.qubit_index for m in measures]
        product = 1
        flags["nontrivial"] = interleaved(qs) and (st["depth"] >= 2 or _product(prog["circuit"], ctx.S) >= 4)
    memo_shadow.drain()


def _product(circ: Dict[str, Any], S: M.Settings, accu: int = 1) -> int:
    r = circ.get("reps", 1)
    r = S.reps.get(r["reg"], 1) if isinstance(r, dict) else r
    best = accu * r
    for st in circ["steps"]:
        if "sub" in st:
            best = max(best, _product(st["sub"], S, accu * r))
    return best


def check_library(inp: Dict[str, Any], acc: Acc):
    case = {"library": inp}
    with libgen.override(inp.get("glob") or {}):
        circuit = libgen.construct(inp).apply_modifiers()
        measures = check_indices(circuit, acc, case, prefix="library/")
        check_export_order(circuit, measures, acc, case)
        check_monotonic(circuit, measures, acc, case, require_overlap_free=False)
    acc.count("library_circuits")
    memo_shadow.drain()


def run_shard(shard: Dict[str, Any]) -> Acc:
    acc = Acc()
    rng = random.Random(shard["seed"])
    if shard["kind"] == "library":
        for i in range(shard["n"]):
            inp = libgen.gen_repcode_input(rng, max_distance=4, max_cycles=6, composite_p=0.3)
            inp["glob"] = libgen.gen_global_settings(rng, default=rng.random() < 0.4)
            acc.hist("class", "library/" + inp["constructor"])
            acc.case(bp.phash(inp), inp["cycles"] >= 2 and inp["distance"] >= 3, sample=inp if i < 3 else None)
            common.guarded(acc, check_library, inp, acc, case={"library": inp})
        return acc
    classes = shard["classes"]
    for i in range(shard["n"]):
        cls = classes[i % len(classes)]
        prog = gen_case(rng, cls)
        acc.hist("class", cls)
        flags: Dict[str, Any] = {}
        common.guarded(acc, check_program, prog, acc, flags, case={"program": prog})
        acc.case(bp.phash(prog), bool(flags.get("nontrivial")), sample=prog if i < 40 else None)
    return acc


def replay(shard: Dict[str, Any]) -> Acc:
    acc = Acc()
    case = shard["case"]
    if "library" in case:
        check_library(case["library"], acc)
    else:
        check_program(case["program"], acc)
    acc.case("replay", True, sample=case)
    return acc
