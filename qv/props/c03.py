"""C03 — Answers depend on the circuit, not on what was asked before (twin-run history differential)."""
import contextlib
import os
import random
from typing import Any, Dict, List, Optional, Tuple

from qv import bp, gen, model as M, snap, memo_shadow
from qv.acc import Acc
from qv.kinds import DEFAULT_GLOBAL, discover
from qv.props import common, c05

HANDLES_MEMO = True
TOL = 1e-7

META = {
    "level": "exploration",
    "technique": "runtime monitoring of histories: twin-run differential (all events vs mutations only), model comparison of every intermediate time read, memo-shadow monitor on every public call",
    "rule": ("histories of <= 30 events interleaving mutations (add operation, add sub-circuit, grow a nested sub-circuit, apply modifiers, flatten, set a "
             "registry duration, enter/leave a temporary global override) with observations (operations, times through kept handles, duration, acquisition "
             "indices, plot compact/non-compact, to_stim, OpenQL name, copy, unrolled copy); run A executes everything, run B only the mutations; both end "
             "with the same observation block; distinct by hash of the history; non-trivial = an observation, then a mutation, then another observation"),
    "assumptions": [
        "reference model follows add / add sub-circuit / grow / apply modifiers / duration settings; after flatten only the A/B differential applies",
        "measurements are only created before apply_modifiers (the circuit returned by apply_modifiers has a fresh, unrelated acquisition registry)",
    ],
    "floors": {
        "quick": {"histories": 2500, "final_snapshots_compared": 2500, "intermediate_time_reads_vs_model": 20000, "events_set_reg": 800,
                  "events_enter_override": 800, "events_plot_compact": 500, "events_plot_full": 500, "events_apply_modifiers": 800, "events_flatten": 300, "grow_applied": 150, "grow_inner_applied": 300},
        "thorough": {"histories": 30000, "final_snapshots_compared": 30000, "intermediate_time_reads_vs_model": 250000},
    },
}

OBSERVATIONS = ["operations", "times", "duration", "acq", "plot_compact", "plot_full", "plot_rejected", "stim", "uuid", "copy", "unrolled_copy", "handle_times"]
LISTING_CLASS = {"operations", "times", "acq", "plot_compact", "plot_full", "plot_rejected", "uuid"}
COPY_CLASS_MUT = {"apply_modifiers"}
COPY_CLASS_OBS = {"copy", "unrolled_copy"}


def plan(tier: str, seed: int) -> List[Dict[str, Any]]:
    total = 6000 if tier == "quick" else 60000
    return common.split_shards("gen", total, 16, seed, 3, classes=["nested", "explicit", "measure", "zero", "nested_explicit"])


# ---- history generation ---------------------------------------------------------------------------------

def _no_measure(step: Dict[str, Any]) -> bool:
    return "sub" in step or step["k"] != "DispersiveMeasure"


def gen_case(rng: random.Random, cls: str) -> Dict[str, Any]:
    prog = gen.gen_program(rng, cls, steps=(2, 9), sub_steps=(1, 4), max_depth=2, reps=[1, 1, 2, 3])
    events: List[Dict[str, Any]] = []

    def maybe_observe(p: float):
        while rng.random() < p:
            events.append({"ev": rng.choice(OBSERVATIONS)})

    def maybe_settings(p: float):
        if rng.random() < p:
            r = rng.random()
            if r < 0.45:
                events.append({"ev": "set_reg", "key": rng.choice(gen.REG_KEYS), "value": rng.choice(gen.DURS)})
            elif r < 0.8:
                events.append({"ev": "enter_override", "glob": {k: rng.choice(gen.GLOB_GRID) for k in DEFAULT_GLOBAL}})
            else:
                events.append({"ev": "exit_override"})

    block_idx = []
    will_unroll = rng.random() < 0.6
    will_flatten = rng.random() < 0.25
    deep_done = False
    deep_qubit = None
    for i, step in enumerate(prog["circuit"]["steps"]):
        events.append({"ev": "add", "step": step})
        if "sub" in step:
            block_idx.append(i)
        maybe_observe(0.3)
        maybe_settings(0.12)
        if "sub" in step and not deep_done and not (will_unroll or will_flatten) and rng.random() < 0.8:
            # growth two levels deep (seeded change C03-r15): the enclosing nested block grows (same footprint), the circuit is
            # observed, then a block nested INSIDE it grows on a qubit that is new for the whole nested block; the history ends
            # the building phase with a top-level operation on that qubit
            inner = [j for j, st in enumerate(step["sub"]["steps"]) if "sub" in st]
            leaves = [st for st in step["sub"]["steps"] if "sub" not in st and st["k"] != "DispersiveMeasure"]
            free = [q for q in range(6) if q not in _qubits_of(step["sub"])]
            if inner and free:
                deep_done = True
                if leaves and rng.random() < 0.8:
                    src = rng.choice(leaves)
                    g = {"k": src["k"], "q": list(src["q"])}
                    if "chan" in src:
                        g["chan"] = src["chan"]
                    if "dur" in src:
                        g["dur"] = src["dur"]
                    events.append({"ev": "grow", "block": i, "step": g})
                for _ in range(rng.randint(0, 2)):
                    events.append({"ev": rng.choice(["plot_compact", "plot_full", "operations", "duration", "stim", "copy", "uuid", "times"])})
                deep_qubit = rng.choice(free)
                events.append({"ev": "grow_inner", "block": i, "inner": rng.choice(inner),
                               "step": {"k": rng.choice(["Wait", "Rx180", "Ry90"]), "q": [deep_qubit]}})
                maybe_observe(0.3)
                continue
        if block_idx and rng.random() < 0.3:
            # grow a nested sub-circuit with an operation of a channel footprint it already has (a new footprint would
            # change which later operations match the block, which no history-free replay can reproduce)
            b = rng.choice(block_idx)
            leaves = [st for st in prog["circuit"]["steps"][b]["sub"]["steps"] if "sub" not in st and st["k"] != "DispersiveMeasure"]
            if leaves:
                src = rng.choice(leaves)
                g = {"k": src["k"], "q": list(src["q"])}
                if "chan" in src:
                    g["chan"] = src["chan"]
                if "dur" in src or rng.random() < 0.5:
                    g["dur"] = rng.choice([1, 3, src.get("dur", 1)])
                if not (will_unroll or will_flatten) and rng.random() < 0.5:
                    # a NEW footprint (a qubit the block does not touch yet): the grown operation becomes a head of the block.
                    # Only in histories that are not copied/unrolled later (copies re-place such heads implicitly).
                    used = {q for st in leaves for q in st["q"]}
                    free = [q for q in range(6) if q not in used]
                    if free:
                        g = {"k": "Wait", "q": [rng.choice(free)], "dur": rng.choice([1, 3])}
                events.append({"ev": "grow", "block": b, "step": g})
                if rng.random() < 0.5:
                    events.append({"ev": rng.choice(["duration", "handle_times", "duration"])})   # read before the next listing
                maybe_observe(0.6)
    if deep_qubit is not None:
        # a top-level operation on the qubit that only the innermost block occupies: has to find the nested block as predecessor
        events.append({"ev": "add", "step": {"k": rng.choice(["Rx180", "Ry90", "Wait", "Reset"]), "q": [deep_qubit]}})
        maybe_observe(0.5)
    maybe_observe(0.5)
    maybe_settings(0.3)
    if will_unroll:
        events.append({"ev": "apply_modifiers"})
        maybe_observe(0.5)
        maybe_settings(0.3)
        maybe_observe(0.4)
    if will_flatten:
        events.append({"ev": "flatten"})
        maybe_observe(0.5)
        maybe_settings(0.2)
    if (will_unroll or will_flatten) and rng.random() < 0.4:
        # keep building on the unrolled / flattened circuit (no measurements: the circuit returned by apply_modifiers has a
        # fresh acquisition registry); the reference model does not follow these, the twin-run differential does
        for _ in range(rng.randint(1, 3)):
            events.append({"ev": "late_add", "step": {"k": rng.choice(["Rx180", "Wait", "Reset", "Barrier", "CPhase", "Ry90"]),
                                                      "q": rng.sample(range(4), 2), "dur": rng.choice([None, 1, 3])}})
            maybe_observe(0.5)
        maybe_settings(0.2)
        maybe_observe(0.5)
    settings = prog["settings"]
    settings["glob"] = {}
    return {"class": cls, "top_reps": prog["circuit"].get("reps", 1), "settings": settings, "events": events}


def _qubits_of(circ: Dict[str, Any]) -> set:
    out: set = set()
    for st in circ["steps"]:
        out |= _qubits_of(st["sub"]) if "sub" in st else set(st["q"])
    return out


def nontrivial(events: List[Dict[str, Any]]) -> bool:
    state = 0
    for e in events:
        is_obs = e["ev"] in OBSERVATIONS
        if state == 0 and is_obs:
            state = 1
        elif state == 1 and not is_obs:
            state = 2
        elif state == 2 and is_obs:
            return True
    return False


# ---- one run ---------------------------------------------------------------------------------------------

class Run:
    def __init__(self, hist: Dict[str, Any], acc: Optional[Acc], case: Dict[str, Any], check_model: bool):
        self.hist = hist
        self.acc = acc
        self.case = case
        self.check_model = check_model
        self.ctx = bp.Ctx(hist.get("settings"))
        self.built = bp.start({"circuit": {"reps": hist.get("top_reps", 1), "steps": []}, "settings": hist.get("settings")}, self.ctx)
        self.circuit = self.built.top.circuit
        self.overrides: List[Any] = []
        self.glob_stack: List[Dict[str, float]] = [dict(DEFAULT_GLOBAL)]
        self.phase = "building"
        self.model_level: Optional[List[M.MNode]] = self.built.top.mnodes
        self.model_ok = True
        self.last_mutation = "none"
        self.grown: set = set()
        self.step = 0
        self.listed = False          # a listing-class observation handed relation links down already
        self.mixed_frames = False    # a nested sub-circuit was grown after hand-down and not listed since
        self.copy_after_listing = False   # apply_modifiers ran after a listing on a circuit with value-equal head sub-circuits

    # -- mutations
    def mutate(self, e: Dict[str, Any]):
        from qce_circuit.structure.registry_duration import temporary_override_get_registry_at, GlobalRegistryKey
        kind = e["ev"]
        S = self.ctx.S
        if kind == "add":
            if self.phase != "building":
                return
            bp.add_step(self.built, e["step"])
            self.model_level = self.built.top.mnodes
        elif kind == "grow":
            self._grow(e)
        elif kind == "grow_inner":
            self._grow(e, inner=True)
        elif kind == "set_reg":
            self.ctx.duration_registry.set_registry_at(e["key"], e["value"])
            S.reg[e["key"]] = e["value"]
        elif kind == "enter_override":
            table = {GlobalRegistryKey[k]: float(v) for k, v in e["glob"].items()}
            cm = temporary_override_get_registry_at(table)
            cm.__enter__()
            self.overrides.append(cm)
            self.glob_stack.append(dict(e["glob"]))
            S.glob = dict(e["glob"])
        elif kind == "exit_override":
            if not self.overrides:
                return
            self.overrides.pop().__exit__(None, None, None)
            self.glob_stack.pop()
            S.glob = dict(self.glob_stack[-1])
        elif kind == "apply_modifiers":
            if self.phase != "building":
                return
            stats: Dict[str, int] = {}
            top_reps = M.reps_of(M.MNode(is_block=True, reps=self.hist.get("top_reps", 1)), S)
            self.model_level = M.unroll(self.built.top.mnodes, top_reps, S, stats)
            if stats.get("unroll_degenerate"):
                self.model_ok = False
            self.circuit = self.circuit.apply_modifiers()
            self.phase = "unrolled"
            self.copy_after_listing = self.listed and value_equal_heads(
                self.built.top.mnodes, [_reps_key(self.hist.get("top_reps", 1)), ("fixed", 1)])
        elif kind == "flatten":
            self.circuit = self.circuit.flatten()
            self.phase = "flattened"
            self.model_ok = False
        elif kind == "late_add":
            step = dict(e["step"])
            info = discover()[step["k"]]
            if info["arity"] == 1:
                step["q"] = step["q"][:1]
            self.circuit.add(bp.make_op(step, self.ctx, [self.built.top]))
            self.model_ok = False
        else:
            raise ValueError(kind)
        self.last_mutation = kind

    def _grow(self, e: Dict[str, Any], inner: bool = False):
        """Add an operation to a sub-circuit handle after it was nested (``inner``: to a block nested inside that sub-circuit)."""
        if self.phase != "building":
            return
        top = self.built.top
        i = e["block"]
        key = (i, e["inner"]) if inner else i
        if i >= len(top.handles) or top.children[i] is None or key in self.grown:
            return
        child = top.children[i]
        handle = top.handles[i]
        if inner:
            # the block inside the nested COPY that corresponds to step ``inner`` of the sub-circuit: same ordinal among the
            # composite operations (growth only ever appends leaves)
            j = e["inner"]
            if j >= len(child.children) or child.children[j] is None:
                return
            # the node iterator lists a graph breadth-first over its relations, not in the order of the add calls: the ordinal is
            # taken in the iteration order of the ORIGINAL sub-circuit (its add() handles are nodes of that structure) and carried
            # over to the nested copy (growth only ever appends leaves, which leaves the relative order of the blocks alone)
            src_blocks = [o for o in snap.walk_nodes(child.circuit.circuit_structure) if snap.is_composite(o)]
            ordinal = next((k for k, o in enumerate(src_blocks) if o is child.handles[j]), None)
            blocks = [o for o in snap.walk_nodes(handle) if snap.is_composite(o)]
            resolved = ordinal is not None and len(blocks) == len(src_blocks) and \
                sorted(snap.op_sig(o) for o in snap.walk_leaves(blocks[ordinal])) == sorted(snap.op_sig(o) for o in snap.walk_leaves(src_blocks[ordinal]))
            if not resolved:
                if self.acc is not None:
                    self.acc.count("grow_inner_unresolved")
                return
            handle = blocks[ordinal]
            child = child.children[j]
            i = key
        before = snap.walk_nodes(handle)
        src = snap.walk_nodes(child.circuit.circuit_structure)
        op = bp.make_op(e["step"], self.ctx, [top])
        handle.add(op)
        self.grown.add(i)
        if self.listed:
            self.mixed_frames = True
        mnode = bp.mnode_of(e["step"])
        ref = snap.link_info(op)["ref"]
        parent = None
        if ref is not None and len(before) == len(src):
            pos = [k for k, o in enumerate(before) if o is ref]
            if pos:
                orig = src[pos[0]]
                idx = [k for k, h in enumerate(child.handles) if h is orig]
                if idx:
                    parent = child.mnodes[idx[0]]
            if parent is None:
                self.model_ok = False
        M.attach(child.mnodes, mnode, parent, M.FB)
        if inner and os.environ.get("VERIF_C03_DEEP_MODEL") == "0":
            self.model_ok = False       # debugging aid: judge deep growth by the twin-run differential only
        if self.acc is not None:
            self.acc.count("grow_inner_applied" if inner else "grow_applied")

    # -- observations (run A only); each may check against the model
    def observe(self, kind: str):
        acc = self.acc
        circuit = self.circuit
        if kind in LISTING_CLASS:
            self.listed = True
            self.mixed_frames = False
        if kind in ("operations", "times"):
            ops = circuit.operations
            if kind == "times":
                self._check_times(ops, "times")
        elif kind == "handle_times":
            # times through handles kept from the add calls (no listing involved), building phase only
            if self.phase == "building":
                handles = [h for h, c in zip(self.built.top.handles, self.built.top.children) if c is None]
                if handles and self.model_ok and self.check_model:
                    raw = snap.raw_times(handles)
                    sh = snap.shadow_times(handles)
                    times = M.level_times(self.built.top.mnodes, self.ctx.S, 0.0)
                    mnodes = [m for m, c in zip(self.built.top.mnodes, self.built.top.children) if c is None]
                    for h, r, s, m in zip(handles, raw, sh, mnodes):
                        want = times[id(m)]
                        acc.count("intermediate_time_reads_vs_model")
                        if abs(r[0] - want[0]) > TOL or abs(r[1] - want[1]) > TOL:
                            stale = abs(s[0] - want[0]) <= TOL and abs(s[1] - want[1]) <= TOL
                            sig = f"stale-memo/{self.last_mutation}" if stale else "timing/handle"
                            if self.mixed_frames and not stale:
                                sig = "unlisted-growth/mixed-time-frames"
                            acc.finding(sig, f"time read through a kept handle does not reflect the current circuit/settings (last mutation: {self.last_mutation})",
                                        self.case, {"op": type(h).__name__, "reported": r, "model": want, "memo_free": s, "step": self.step})
                            break
        elif kind == "duration":
            d = snap.raw_value(lambda: float(circuit.duration))
            if self.model_ok and self.check_model and self.model_level is not None:
                want = M.span(self.model_level, self.ctx.S)
                acc.count("intermediate_durations_vs_model")
                if abs(d - want) > TOL:
                    sh = snap.shadow_value(lambda: float(circuit.duration))
                    sig = f"stale-memo/{self.last_mutation}" if abs(sh - want) <= TOL else "timing/duration"
                    if self.mixed_frames and sig == "timing/duration":
                        sig = "unlisted-growth/mixed-time-frames"
                    elif self.copy_after_listing and sig == "timing/duration":
                        sig = "listing-before-copy/value-equal-heads"
                    acc.finding(sig, f"duration does not reflect the current circuit/settings (last mutation: {self.last_mutation})", self.case,
                                {"reported": d, "model": want, "memo_free": sh, "step": self.step})
        elif kind == "acq":
            for op in circuit.operations:
                if hasattr(op, "acquisition_index"):
                    op.acquisition_index
        elif kind in ("plot_compact", "plot_full"):
            import matplotlib.pyplot as plt
            from qce_circuit.visualization.visualize_circuit.display_circuit import plot_circuit
            try:
                fig, ax = plot_circuit(circuit, compact_visualization=(kind == "plot_compact"))
                plt.close(fig)
            except Exception as exc:
                acc.count("plot_raised_" + type(exc).__name__)
            finally:
                plt.close("all")
        elif kind == "plot_rejected":
            # a drawing that is (correctly) rejected - unknown channel in the requested order - is an observation like any other
            import matplotlib.pyplot as plt
            from qce_circuit.visualization.visualize_circuit.display_circuit import plot_circuit
            try:
                fig, ax = plot_circuit(circuit, channel_order=[97], compact_visualization=True)
                plt.close(fig)
                acc.count("plot_rejected_but_drawn")
            except Exception as exc:
                acc.count("plot_rejected_" + type(exc).__name__)
            finally:
                plt.close("all")
        elif kind == "stim":
            from qce_circuit.addon_stim.factory_manager import to_stim
            try:
                str(to_stim(circuit))
            except ValueError:
                acc.count("stim_raised_ValueError")
        elif kind == "uuid":
            from qce_circuit.addon_openql.intrf_openql_factory import OpenQLCircuitFactoryManager
            OpenQLCircuitFactoryManager.construct_uuid(circuit.circuit_structure)
        elif kind == "copy":
            circuit.circuit_structure.copy().decomposed_operations()
        elif kind == "unrolled_copy":
            from qce_circuit.language.declarative_circuit import DeclarativeCircuit
            w = DeclarativeCircuit()
            w._structure = circuit.circuit_structure.copy()
            w.apply_modifiers().operations
        else:
            raise ValueError(kind)

    def _check_times(self, ops, label: str):
        acc = self.acc
        raw = snap.raw_times(ops)
        if not (self.model_ok and self.check_model and self.model_level is not None):
            return
        S = self.ctx.S
        A = common.records_lib(ops, raw)
        B = common.records_model(self.model_level, S)
        acc.count("intermediate_time_reads_vs_model", len(ops))
        only_a, only_b = snap.multiset_diff(A, B)
        if only_a or only_b:
            H = common.records_lib(ops, snap.shadow_times(ops))
            h_a, h_b = snap.multiset_diff(H, B)
            if [a[0] for a in A] and sorted(a[0] for a in A) != sorted(b[0] for b in B):
                sig = "history/content-vs-model"
            elif not (h_a or h_b):
                sig = f"stale-memo/{self.last_mutation}"
            else:
                sig = "timing/listing"
            if self.copy_after_listing and not sig.startswith("stale-memo"):
                sig = "listing-before-copy/value-equal-heads"
            acc.finding(sig, f"times reported after a change do not reflect the change (last mutation: {self.last_mutation}, phase {self.phase})", self.case,
                        {"only_library": only_a[:3], "only_model": only_b[:3], "step": self.step})

    # -- final observation block
    def snapshot(self) -> Dict[str, Any]:
        from qce_circuit.addon_stim.factory_manager import to_stim
        from qce_circuit.language.declarative_circuit import DeclarativeCircuit
        circuit = self.circuit
        out: Dict[str, Any] = {}
        ops = circuit.operations
        raw = snap.raw_times(ops)
        sh = snap.shadow_times(ops)
        full = c05.snapshot(ops, [(0.0, 0.0)] * len(ops))
        out["listing"] = [x[0] for x in full]
        out["relations"] = [x[1] for x in full]
        out["times"] = [(round(s, 7), round(e, 7)) for s, e in raw]
        out["_shadow_times"] = [(round(s, 7), round(e, 7)) for s, e in sh]
        out["duration"] = round(snap.raw_value(lambda: float(circuit.duration)), 7)
        out["_shadow_duration"] = round(snap.shadow_value(lambda: float(circuit.duration)), 7)
        out["acquisition"] = c05.acquisition(ops)
        qubits = sorted({q for x in full for q in x[0][1]})
        out["acquisition_by_qubit"] = [(q, [int(v) for v in circuit.get_acquisition_indices(q)]) for q in qubits]
        try:
            out["stim"] = str(to_stim(circuit))
        except ValueError as exc:       # exporter limitations belong to C08; here only A/B equality matters
            out["stim"] = "raised " + type(exc).__name__
        cp = circuit.circuit_structure.copy()
        cops = cp.decomposed_operations()
        out["copy"] = c05.snapshot(cops, snap.raw_times(cops))
        w = DeclarativeCircuit()
        w._structure = circuit.circuit_structure.copy()
        uops = w.apply_modifiers().operations
        out["unrolled_copy"] = c05.snapshot(uops, snap.raw_times(uops))
        return out

    def close(self):
        while self.overrides:
            try:
                self.overrides.pop().__exit__(None, None, None)
            except Exception:
                pass


def execute(hist: Dict[str, Any], acc: Optional[Acc], case: Dict[str, Any], with_observations: bool) -> Tuple[Optional[Dict[str, Any]], Run]:
    run = Run(hist, acc, case, check_model=with_observations)
    try:
        for k, e in enumerate(hist["events"]):
            run.step = k
            memo_shadow.STATE.step = k
            if e["ev"] in OBSERVATIONS:
                if with_observations:
                    acc.count("events_" + e["ev"])
                    run.observe(e["ev"])
            else:
                if with_observations:
                    acc.count("events_" + e["ev"])
                run.mutate(e)
        snapshot = run.snapshot()
    finally:
        run.close()
    return snapshot, run


# ---- structural known-finding predicate (evaluated on the model) ------------------------------------------

def _reps_key(r: Any):
    return ("reg", r["reg"]) if isinstance(r, dict) else ("fixed", int(r))


def value_equal_heads(level: List[M.MNode], chain: List[Any]) -> bool:
    """After a listing, head operations (no own relation) carry the link OBJECT of their enclosing circuit, which itself may
    carry the link of ITS enclosing circuit.  Sub-circuits are compared by value (link, repetition strategy): the predicate
    holds when a level has >= 2 head sub-circuits with equal repetition strategy, or a head sub-circuit whose strategy equals
    that of an enclosing circuit sharing the same link (``chain``).  Copying such a circuit confuses the transfer lookup."""
    heads = [n for n in level if n.parent is None and n.multi is None and n.is_block]
    keys = [_reps_key(n.reps) for n in heads]
    if len(keys) != len(set(keys)):
        return True
    if any(k in chain for k in keys):
        return True
    for n in level:
        if n.is_block:
            # an enclosing circuit is compared with its ORIGINAL strategy, and - once apply_modifiers has reset it while
            # nested repetitions are still being unrolled - with a fixed count of 1
            own = [_reps_key(n.reps), ("fixed", 1)]
            sub_chain = chain + own if (n.parent is None and n.multi is None) else own
            if value_equal_heads(n.sub, sub_chain):
                return True
    return False


def listing_before_copy(events: List[Dict[str, Any]]) -> bool:
    listed = False
    for e in events:
        if e["ev"] in LISTING_CLASS:
            listed = True
        elif listed and (e["ev"] in COPY_CLASS_MUT or e["ev"] in COPY_CLASS_OBS):
            return True
    return False


# ---- the check ------------------------------------------------------------------------------------------------

STRUCT_KEYS = ["listing", "relations", "acquisition", "acquisition_by_qubit", "stim", "copy", "unrolled_copy"]


def check_history(hist: Dict[str, Any], acc: Acc):
    case = {"history": hist}
    acc.count("histories")
    snap_a, run_a = execute(hist, acc, case, with_observations=True)
    memo = memo_shadow.drain()
    acc.count("memo_queries", memo["queries"])
    acc.count("memo_outermost_compared", memo["outermost"])
    acc.count("memo_benign_has_relation", memo.get("benign_has_relation", 0))
    if memo["discrepancy_count"]:
        apis = sorted({d["api"] for d in memo["discrepancies"]})
        acc.finding("stale-memo/monitor", "a public call answered a time query from the process-wide memo that differs from the memo-free evaluation",
                    case, {"apis": apis, "first": memo["discrepancies"][:3]})
    for v in run_a.built.link_violations:
        acc.finding("link/history", v["what"], case, v)
    snap_b, run_b = execute(hist, None, case, with_observations=False)
    memo_shadow.drain()
    acc.count("final_snapshots_compared")
    struct_known = listing_before_copy(hist["events"] + [{"ev": "copy"}]) and value_equal_heads(run_a.built.top.mnodes, [_reps_key(hist.get("top_reps", 1)), ("fixed", 1)])
    for key in STRUCT_KEYS:
        if snap_a[key] != snap_b[key]:
            sig = f"history/structure/{key}"
            if struct_known:
                sig = "listing-before-copy/value-equal-heads"
            acc.finding(sig, f"final {key} differs between the full history and the same mutations without intermediate observations", case,
                        {"component": key, "with_observations": _first_diff(snap_a[key], snap_b[key])})
            break
    else:
        if snap_a["times"] != snap_b["times"] or snap_a["duration"] != snap_b["duration"]:
            stale = snap_a["_shadow_times"] == snap_b["times"] and snap_a["_shadow_duration"] == snap_b["duration"]
            sig = f"stale-memo/{run_a.last_mutation}" if stale else "history/times"
            if struct_known and not stale:
                # the value-equal-heads collision re-points relations; after a flatten the structure snapshot no longer shows it, the times do
                sig = "listing-before-copy/value-equal-heads"
            acc.finding(sig, f"final reported times differ between the full history and the mutations-only run (last mutation: {run_a.last_mutation})", case,
                        {"with_observations": _first_diff(snap_a["times"], snap_b["times"]), "durations": [snap_a["duration"], snap_b["duration"]]})
    # final snapshot vs model (run B is observation-free: its times must match the model under the current settings)
    if run_b.model_ok and run_b.model_level is not None:
        S = run_b.ctx.S
        Bm = sorted(common.records_model(run_b.model_level, S))
        Bl = sorted((tuple(s), t[0], t[1]) for s, t in zip(snap_b["listing"], snap_b["times"]))
        acc.count("final_times_vs_model")
        if [x for x in Bl] != [(_tup(b[0]), b[1], b[2]) for b in Bm]:
            if sorted(x[0] for x in Bl) == sorted(_tup(b[0]) for b in Bm):
                stale = sorted((tuple(s), t[0], t[1]) for s, t in zip(snap_b["listing"], snap_b["_shadow_times"])) == [(_tup(b[0]), b[1], b[2]) for b in Bm]
                sig = f"stale-memo/{run_b.last_mutation}" if stale else "timing/final"
                acc.finding(sig, f"observation-free run: final times differ from the model under the current settings (last mutation: {run_b.last_mutation})", case, None)


def _tup(x):
    return tuple(_tup(i) for i in x) if isinstance(x, (list, tuple)) else x


def _first_diff(a, b):
    if isinstance(a, str):
        return {"a": a[:300], "b": b[:300]}
    for k, (x, y) in enumerate(zip(a, b)):
        if x != y:
            return {"pos": k, "a": x, "b": y}
    return {"len_a": len(a), "len_b": len(b)}


def check_program(hist: Dict[str, Any], acc: Acc):
    """(name kept for the shrink tooling) -- a 'program' of C03 is a history."""
    check_history(hist, acc)


def run_shard(shard: Dict[str, Any]) -> Acc:
    acc = Acc()
    rng = random.Random(shard["seed"])
    classes = shard["classes"]
    for i in range(shard["n"]):
        cls = classes[i % len(classes)]
        hist = gen_case(rng, cls)
        acc.hist("class", cls)
        acc.hist("events", len(hist["events"]) // 5 * 5)
        acc.case(bp.phash(hist), nontrivial(hist["events"]), sample=hist if i < 40 else None)
        common.guarded(acc, check_history, hist, acc, case={"history": hist})
    return acc


def replay(shard: Dict[str, Any]) -> Acc:
    acc = Acc()
    case = shard["case"]
    check_history(case.get("history") or case.get("program"), acc)
    acc.case("replay", True, sample=case)
    return acc
