"""C06 — Applying repetition modifiers unrolls n back-to-back copies, once."""
import random
from typing import Any, Dict, List, Tuple

from qv import bp, gen, model as M, snap, memo_shadow, contracts
from qv.acc import Acc
from qv.props import common, libgen

HANDLES_MEMO = True
TOL = 1e-7

META = {
    "level": "exploration",
    "technique": "runtime monitoring: before/after observer around apply_modifiers (counts, identity, repetition counters via icontract postcondition, idempotence, raw/shadow/model times), library listings vs n-fold concatenation",
    "rule": ("nested build programs with repetition counts >= 1 at every level (fixed and registry-provided), branching blocks, random durations; "
             "library constructor inputs (distance 2-4, cycles 0-8, full and simplified); distinct by structural hash; non-trivial = product of nested "
             "counts >= 4 or a repeated block with >= 2 relation leaves"),
    "assumptions": ["reference model qv/model.py (unroll = n copies, copy k+1 FOLLOWED_BY the latest-ending relation leaf before it)"],
    "floors": {
        "quick": {"unrolled_programs": 3000, "late_repetition_settings": 600, "registry_counts_changed_after_unrolling": 1200, "unrolled_reread_after_registry_change": 800, "apply_modifiers_post": 3000, "idempotence_checks": 3000, "library_concatenation_checks": 40, "library_concatenation_under_other_durations": 15, "unrolled_listing_order_checks": 3000,
                  "identity_outside_blocks": 5000, "time_triples_compared": 50000, "eq_multi": 20000},
        "thorough": {"unrolled_programs": 30000, "apply_modifiers_post": 30000, "library_concatenation_checks": 300},
    },
}

CLASSES = ["nested", "nested_implicit", "nested_explicit", "measure"]


def plan(tier: str, seed: int) -> List[Dict[str, Any]]:
    total = 4000 if tier == "quick" else 50000
    shards = common.split_shards("gen", total, 15, seed, 6, classes=CLASSES)
    shards.append({"kind": "library", "n": 60 if tier == "quick" else 400, "seed": common.seed_base(seed, 66), "hashseed": 0})
    return shards


def gen_case(rng: random.Random, cls: str) -> Dict[str, Any]:
    late = rng.random() < 0.3
    # every fifth program may contain EMPTY sub-circuits (carrying counts like any other)
    sub_steps = (0, 3) if rng.random() < 0.2 else (1, 4)
    prog = gen.gen_program(rng, cls, reps=[1, 2, 2, 3], p_sub=0.3, max_depth=2 if rng.random() < 0.7 else 3, sub_steps=sub_steps, steps=(2, 6),
                           **({"p_reg_reps": 0.6} if late else {}))
    if rng.random() < 0.35:
        prog["reassign_registry"] = {k: rng.choice(gen.DURS) for k in gen.REG_KEYS}
    if late:
        # registry-provided counts that are set / changed AFTER the blocks were nested and before the modifiers are applied
        prog["settings"]["reps_late"] = {k: rng.choice([1, 2, 3, 4]) for k in gen.REP_KEYS if rng.random() < 0.8}
    return prog


def i_case_changes_registry(prog: Dict[str, Any]) -> bool:
    """Every second program (by structural hash) changes the repetition registry between the two applications."""
    return int(bp.phash(prog)[:2], 16) % 2 == 0


def reps_product(circ: Dict[str, Any], S: M.Settings, acc=1) -> int:
    r = circ.get("reps", 1)
    r = S.reps.get(r["reg"], 1) if isinstance(r, dict) else r
    best = acc * r
    for st in circ["steps"]:
        if "sub" in st:
            best = max(best, reps_product(st["sub"], S, acc * r))
    return best


def multi_leaf_repeated(level: List[M.MNode], S: M.Settings, reps: int) -> bool:
    if reps >= 2 and sum(1 for n in level if n.nchildren == 0) >= 2:
        return True
    return any(n.is_block and multi_leaf_repeated(n.sub, S, M.reps_of(n, S)) for n in level)


def check_program(prog: Dict[str, Any], acc: Acc, flags=None):
    flags = flags if flags is not None else {}
    if not contracts.install():
        acc.inconclusive.append("setup: icontract not importable")
        return
    contracts.ENABLED["graph"] = False     # graph invariants belong to C02 (quadratic on unrolled graphs); keep the repetition postcondition
    ctx = bp.Ctx(prog.get("settings"))
    S = ctx.S
    case = {"program": prog}
    with ctx.global_override():
        built = bp.build(prog, ctx)
        late = (prog.get("settings") or {}).get("reps_late")
        if late:
            for k, v in late.items():
                ctx.repetition_registry.set_registry_at(k, v)
                S.reps[k] = v
            acc.count("late_repetition_settings")
        top_reps = M.reps_of(M.MNode(is_block=True, reps=prog["circuit"].get("reps", 1)), S)
        flags["nontrivial"] = reps_product(prog["circuit"], S) >= 4 or multi_leaf_repeated(built.top.mnodes, S, top_reps)
        direct = [(h, snap.op_sig(h)) for h, c in zip(built.top.handles, built.top.children) if c is None]
        try:
            modified = built.top.circuit.apply_modifiers()
        except contracts.ModifiersBroken as exc:
            acc.finding("repetition-count-left", f"repetition count not reset: {exc}", case, None)
            return
        except (contracts.GraphBroken, contracts.AddBroken) as exc:
            acc.finding("graph/" + type(exc).__name__, f"graph contract broken while unrolling: {exc}", case, None)
            return
        acc.count("unrolled_programs")
        ops = modified.operations
        # ---- multiplicities: content x product of enclosing counts
        want = M.count_kinds(built.top.mnodes, S, top_reps)
        got: Dict[str, int] = {}
        for op in ops:
            got[type(op).__name__] = got.get(type(op).__name__, 0) + 1
        if got != want:
            acc.finding("unroll/multiplicity", "per-kind operation counts after unrolling are not content x product of enclosing repetition counts", case,
                        {"library": got, "expected": want})
        # ---- operations outside repeated blocks are untouched (same object, same fields)
        if top_reps == 1:
            index = {id(o) for o in ops}
            for h, sig in direct:
                acc.count("identity_outside_blocks")
                if id(h) not in index:
                    acc.finding("unroll/untouched-operation-replaced", "an operation outside every repeated block is not the same object after unrolling", case,
                                {"op": type(h).__name__})
                elif snap.op_sig(h) != sig:
                    acc.finding("unroll/untouched-operation-changed", "an operation outside every repeated block changed", case, {"before": sig, "after": snap.op_sig(h)})
        # ---- all repetition counts are 1 (public observer, in addition to the postcondition hook)
        for comp in [modified.circuit_structure] + list(modified.composite_operations):
            if comp.nr_of_repetitions != 1:
                acc.finding("repetition-count-left", "a sub-circuit still carries a repetition count after apply_modifiers", case, {"n": comp.nr_of_repetitions})
        # ---- timing of the copies (raw / shadow / model)
        stats: Dict[str, int] = {}
        unrolled_model = M.unroll(built.top.mnodes, top_reps, S, stats)
        if stats.get("unroll_degenerate"):
            acc.count("unroll_degenerate_skipped")
        else:
            info = common.compare_times(built, acc, "unrolled", unrolled_model, case, circuit=modified)
            common.local_equations(info["ops"], info["raw"], acc, case, "unrolled")
            # block of duration T repeated n times occupies the model's (n*T for leaf-terminated blocks) span
            want_d = M.span(unrolled_model, S)
            got_d = snap.raw_value(lambda: float(modified.duration))
            acc.count("unrolled_durations_compared")
            if abs(want_d - got_d) > TOL:
                shadow_d = snap.shadow_value(lambda: float(modified.duration))
                sig = "stale-memo/unrolled-duration" if abs(shadow_d - want_d) <= TOL else "unroll/duration"
                acc.finding(sig, "duration of the unrolled circuit differs from the model (n back-to-back copies)", case,
                            {"library": got_d, "model": want_d, "memo_free": shadow_d})
        # ---- "n copies chained one after another": in the unrolled listing every operation comes after the operation(s) its relation refers
        #      to - the heads of copy k+1 after every leaf of copy k they follow (seeded change C06-r11: copies hung under the latest-ENDING leaf)
        pos = {id(o): k for k, o in enumerate(ops)}
        acc.count("unrolled_listing_order_checks")
        for k, o in enumerate(ops):
            li = snap.link_info(o)
            refs = [li["ref"]] if li["kind"] == "single" and li.get("ref") is not None else (li.get("refs") or [] if li["kind"] == "multi" else [])
            late = [r for r in refs if not snap.is_composite(r) and id(r) in pos and pos[id(r)] >= k]
            if late:
                acc.finding("unroll/listing-order", "an operation of the unrolled circuit is listed before an operation its relation refers to (copies are not listed one after another)",
                            case, {"position": k, "reference_position": pos[id(late[0])], "link": li["kind"]})
                break
        # ---- idempotence - also when the repetition registry changes in between: the counts were applied once and reset, a
        #      registry value set afterwards has nothing left to act on
        before_ids = [id(o) for o in ops]
        before_t = snap.raw_times(ops)
        if i_case_changes_registry(prog):
            for k2 in gen.REP_KEYS:
                ctx.repetition_registry.set_registry_at(k2, 3)
            acc.count("registry_counts_changed_after_unrolling")
            for comp in [modified.circuit_structure] + list(modified.composite_operations):
                if comp.nr_of_repetitions != 1:
                    acc.finding("repetition-count-left", "a sub-circuit reports a repetition count again after the registry changed (counts were not reset to fixed 1)", case,
                                {"n": comp.nr_of_repetitions})
                    break
        again = modified.apply_modifiers()
        ops2 = again.operations
        acc.count("idempotence_checks")
        if [id(o) for o in ops2] != before_ids:
            acc.finding("unroll/not-idempotent", "a second apply_modifiers changes the operation listing", case, {"len1": len(ops), "len2": len(ops2)})
        else:
            t2 = snap.raw_times(ops2)
            if any(abs(a[0] - b[0]) > TOL or abs(a[1] - b[1]) > TOL for a, b in zip(before_t, t2)):
                acc.finding("unroll/not-idempotent-times", "a second apply_modifiers changes reported times", case, None)
        # ---- "each copy begins when the latest-ending relation leaf of what precedes it has ended" for ANOTHER duration assignment
        #      of the same, already unrolled and listed circuit (which leaf ends last may change)
        if prog.get("reassign_registry"):
            for k2, v2 in prog["reassign_registry"].items():
                ctx.duration_registry.set_registry_at(k2, v2)
                S.reg[k2] = v2
            stats2: Dict[str, int] = {}
            model2 = M.unroll(built.top.mnodes, top_reps, S, stats2)
            if not stats2.get("unroll_degenerate"):
                acc.count("unrolled_reread_after_registry_change")
                info2 = common.compare_times(built, acc, "unrolled-reassigned", model2, case, circuit=again)
                common.local_equations(info2["ops"], info2["raw"], acc, case, "unrolled-reassigned")
    acc.merge_counts(contracts.drain())
    memo = memo_shadow.drain()
    if memo["discrepancy_count"]:
        acc.finding("stale-memo/monitor", "a time query answered from the process-wide memo differs from the memo-free evaluation", case, memo["discrepancies"][:3])


def expected_concatenation(composite) -> List[Tuple]:
    """In-order expansion of the (not yet unrolled) structure with every block repeated its count."""
    out: List[Tuple] = []
    for op in snap.walk_nodes(composite):
        if snap.is_composite(op):
            out.extend(expected_concatenation(op) * op.nr_of_repetitions)
        else:
            out.append(snap.op_sig(op))
    return out


def check_library(inp: Dict[str, Any], acc: Acc):
    case = {"library": inp}
    circuit = libgen.construct(inp)
    # "all duration assignments": the circuit is unrolled and listed under a random global duration table (the listing may not depend on
    # which leaf of a block happens to end last - seeded change C06-r11)
    with libgen.override(inp.get("glob") or {}):
        expected = expected_concatenation(circuit.circuit_structure) * circuit.circuit_structure.nr_of_repetitions
        modified = circuit.apply_modifiers()
        got = [snap.op_sig(o) for o in modified.operations]
    acc.count("library_concatenation_checks")
    if inp.get("glob"):
        acc.count("library_concatenation_under_other_durations")
    acc.count("operations_observed", len(got))
    if got != expected:
        if sorted(got) != sorted(expected):
            acc.finding("library/unrolled-content", "unrolled library circuit does not contain n copies of each repeated block", case,
                        {"len_library": len(got), "len_expected": len(expected)})
        else:
            k = next(i for i, (a, b) in enumerate(zip(got, expected)) if a != b)
            acc.finding("library/unrolled-listing-order", "unrolled listing of a library circuit is not the n-fold concatenation of the block listing", case,
                        {"first_difference_at": k, "library": got[k], "expected": expected[k]})
    memo_shadow.drain()
    contracts.drain()


def run_shard(shard: Dict[str, Any]) -> Acc:
    acc = Acc()
    rng = random.Random(shard["seed"])
    if shard["kind"] == "library":
        contracts.install()
        contracts.ENABLED["graph"] = False
        for i in range(shard["n"]):
            inp = libgen.gen_repcode_input(rng, max_distance=4, max_cycles=8, composite_p=0.3)
            inp["glob"] = libgen.gen_global_settings(rng, default=rng.random() < 0.3)
            acc.hist("class", "library/" + inp["constructor"])
            acc.hist("cycles", inp["cycles"])
            acc.case(bp.phash(inp), inp["cycles"] >= 2, sample=inp if i < 3 else None)
            common.guarded(acc, check_library, inp, acc, case={"library": inp})
        return acc
    classes = shard["classes"]
    for i in range(shard["n"]):
        cls = classes[i % len(classes)]
        prog = gen_case(rng, cls)
        acc.hist("class", cls)
        flags: Dict[str, Any] = {}
        common.guarded(acc, check_program, prog, acc, flags, case={"program": prog})
        acc.case(bp.phash(prog), bool(flags.get("nontrivial")), sample=prog if i < 40 else None)
    return acc


def replay(shard: Dict[str, Any]) -> Acc:
    acc = Acc()
    case = shard["case"]
    if "library" in case:
        contracts.install()
        check_library(case["library"], acc)
    else:
        check_program(case["program"], acc)
    acc.case("replay", True, sample=case)
    return acc
