"""Per-shard accumulator: what the monitors observed (counters, histograms, distinct cases, findings)."""
import json
from typing import Any, Dict, List, Optional


class Acc:
    MAX_FINDINGS_PER_SIG = 3
    MAX_SAMPLES = 3

    def __init__(self):
        self.evaluations = 0
        self.counters: Dict[str, int] = {}
        self.hists: Dict[str, Dict[str, int]] = {}
        self.nontrivial: set = set()
        self.distinct: set = set()
        self.samples: List[Any] = []
        self.findings: List[Dict[str, Any]] = []
        self._per_sig: Dict[str, int] = {}
        self.finding_counts: Dict[str, int] = {}
        self.inconclusive: List[str] = []

    def count(self, key: str, n: int = 1):
        self.counters[key] = self.counters.get(key, 0) + n

    def merge_counts(self, other: Dict[str, int], prefix: str = ""):
        for k, v in other.items():
            self.count(prefix + k, v)

    def hist(self, name: str, bucket: Any, n: int = 1):
        h = self.hists.setdefault(name, {})
        b = str(bucket)
        h[b] = h.get(b, 0) + n

    def case(self, case_hash: str, nontrivial: bool, sample: Any = None):
        self.evaluations += 1
        self.distinct.add(case_hash)
        if nontrivial:
            self.nontrivial.add(case_hash)
            if sample is not None and len(self.samples) < self.MAX_SAMPLES:
                self.samples.append(sample)

    def finding(self, sig: str, what: str, case: Any, detail: Any = None):
        """A discrepancy between observation and oracle.  ``sig`` is the mechanism key (never a seed/hash)."""
        self.finding_counts[sig] = self.finding_counts.get(sig, 0) + 1
        n = self._per_sig.get(sig, 0)
        if n < self.MAX_FINDINGS_PER_SIG:
            self._per_sig[sig] = n + 1
            self.findings.append({"sig": sig, "what": what, "case": case, "detail": detail})

    def to_json(self) -> Dict[str, Any]:
        return {
            "evaluations": self.evaluations,
            "counters": self.counters,
            "hists": self.hists,
            "nontrivial": sorted(self.nontrivial),
            "distinct": len(self.distinct),
            "samples": self.samples,
            "findings": self.findings,
            "finding_counts": self.finding_counts,
            "inconclusive": self.inconclusive,
        }


def jsonable(x: Any) -> Any:
    return json.loads(json.dumps(x, default=str))
