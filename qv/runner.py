"""Check runner: shards a property's workload over worker subprocesses, merges what the monitors observed,
applies the known-findings file, writes the evidence file and decides the three-valued verdict.

exit 0 = held on everything explored (KNOWN-FINDING lines for listed findings only)
exit 1 = violation (``VIOLATION property=<id> replay=<path>``)
exit 2 = inconclusive (watchdog, dead worker, deciding monitor never reached, coverage floor missed)
"""
import argparse
import concurrent.futures
import hashlib
import importlib
import json
import os
import subprocess
import sys
import time
from typing import Any, Dict, List, Optional, Tuple

VERIF_DIR = os.path.dirname(os.path.dirname(os.path.abspath(__file__)))
PY = "/venv/bin/python"
WHEELS = "/opt/veriftools/wheels"
DEPS = os.path.join(VERIF_DIR, ".deps")
KNOWN_FILE = os.path.join(VERIF_DIR, "known_findings.json")


def ensure_deps() -> Optional[str]:
    """icontract lives beside the repository's interpreter in /verif/.deps (git-ignored): install offline if absent."""
    if os.path.isdir(os.path.join(DEPS, "icontract")):
        return None
    cmd = [PY, "-m", "pip", "install", "--quiet", "--no-index", "--find-links", WHEELS, "--target", DEPS, "icontract"]
    try:
        r = subprocess.run(cmd, capture_output=True, text=True, timeout=300)
    except Exception as exc:  # pragma: no cover
        return f"pip failed: {exc}"
    if r.returncode != 0 or not os.path.isdir(os.path.join(DEPS, "icontract")):
        return f"pip exit {r.returncode}: {r.stderr[-400:]}"
    return None


def load_known(prop: str) -> Dict[str, Dict[str, Any]]:
    try:
        data = json.load(open(KNOWN_FILE))
    except FileNotFoundError:
        return {}
    out = {}
    for e in data.get("findings", []):
        if e.get("property") == prop and e.get("status", "known") == "known":
            out[e["sig"]] = e
    return out


def _worker_env(hashseed: int) -> Dict[str, str]:
    env = dict(os.environ)
    env["PYTHONHASHSEED"] = str(hashseed)
    env["TQDM_DISABLE"] = "1"
    env["MPLBACKEND"] = "Agg"
    env["PYTHONPATH"] = VERIF_DIR + os.pathsep + env.get("PYTHONPATH", "")
    env["PYTHONDONTWRITEBYTECODE"] = "1"
    env["OMP_NUM_THREADS"] = "1"
    env["OPENBLAS_NUM_THREADS"] = "1"
    return env


def run_worker(prop: str, shard: Dict[str, Any], timeout: float) -> Dict[str, Any]:
    cmd = [PY, "-X", "faulthandler", "-m", "qv.worker", prop]
    t0 = time.time()
    try:
        r = subprocess.run(cmd, input=json.dumps(shard), capture_output=True, text=True, timeout=timeout,
                           env=_worker_env(int(shard.get("hashseed", 0))), cwd=VERIF_DIR)
    except subprocess.TimeoutExpired:
        return {"_dead": f"watchdog fired after {timeout:.0f}s", "shard": shard}
    for line in reversed(r.stdout.splitlines()):
        if line.startswith("RESULT "):
            try:
                res = json.loads(line[7:])
                res["_wall"] = time.time() - t0
                return res
            except json.JSONDecodeError:
                break
    return {"_dead": f"worker exit {r.returncode}: {r.stderr[-1500:]}", "shard": shard}


def merge(results: List[Dict[str, Any]]) -> Dict[str, Any]:
    out: Dict[str, Any] = {"evaluations": 0, "counters": {}, "hists": {}, "nontrivial": set(), "samples": [],
                           "findings": [], "finding_counts": {}, "inconclusive": [], "warnings": {}, "memo": {},
                           "dead": []}
    for r in results:
        if "_dead" in r:
            out["dead"].append(r["_dead"])
            continue
        out["evaluations"] += r.get("evaluations", 0)
        for k, v in r.get("counters", {}).items():
            out["counters"][k] = out["counters"].get(k, 0) + v
        for name, h in r.get("hists", {}).items():
            dst = out["hists"].setdefault(name, {})
            for b, v in h.items():
                dst[b] = dst.get(b, 0) + v
        out["nontrivial"].update(r.get("nontrivial", []))
        if len(out["samples"]) < 5:
            out["samples"].extend(r.get("samples", [])[: 5 - len(out["samples"])])
        out["findings"].extend(r.get("findings", []))
        for k, v in r.get("finding_counts", {}).items():
            out["finding_counts"][k] = out["finding_counts"].get(k, 0) + v
        out["inconclusive"].extend(r.get("inconclusive", []))
        for k, v in r.get("warnings", {}).items():
            out["warnings"][k] = out["warnings"].get(k, 0) + v
        for k, v in r.get("memo", {}).items():
            if isinstance(v, (int, float)):
                out["memo"][k] = out["memo"].get(k, 0) + v
    return out


def write_replay(prop: str, finding: Dict[str, Any]) -> str:
    os.makedirs(os.path.join(VERIF_DIR, "replays"), exist_ok=True)
    body = {"property": prop, "sig": finding["sig"], "what": finding["what"], "case": finding["case"],
            "detail": finding.get("detail")}
    h = hashlib.sha1((finding["sig"] + json.dumps(body["case"], sort_keys=True, default=str)).encode()).hexdigest()[:12]
    path = os.path.join(VERIF_DIR, "replays", f"{prop}-{h}.json")
    with open(path, "w") as f:
        json.dump(body, f, indent=1, default=str)
    return path


def validate_evidence(ev: Dict[str, Any]) -> Optional[str]:
    for k in ("property_id", "tier", "seed", "level", "coverage", "wall_s"):
        if k not in ev:
            return f"missing {k}"
    cov = ev["coverage"]
    if ev["level"] in ("exploration", "fault_enumeration"):
        for k in ("evaluations", "distinct_nontrivial", "rule", "samples"):
            if k not in cov:
                return f"coverage missing {k}"
        if cov["evaluations"] < 1 or cov["distinct_nontrivial"] < 2 or len(cov["samples"]) < 1:
            return "coverage below schema minimum"
    return None


def main(argv: Optional[List[str]] = None) -> int:
    ap = argparse.ArgumentParser(prog="check")
    ap.add_argument("prop")
    ap.add_argument("--tier", default=os.environ.get("VERIF_TIER", "quick"), choices=["quick", "thorough"])
    ap.add_argument("--replay", default=None)
    ap.add_argument("--seed", type=int, default=int(os.environ.get("VERIF_SEED", "0") or 0))
    ap.add_argument("--jobs", type=int, default=int(os.environ.get("VERIF_JOBS", "16")))
    ap.add_argument("--no-evidence", action="store_true")
    args = ap.parse_args(argv)
    prop = args.prop.upper()
    t0 = time.time()

    sys.path.insert(0, VERIF_DIR)
    dep_err = ensure_deps()
    mod = importlib.import_module(f"qv.props.{prop.lower()}")
    meta = mod.META

    if args.replay:
        body = json.load(open(args.replay))
        shard = {"kind": "replay", "case": body["case"], "sig": body.get("sig"), "hashseed": 0}
        res = run_worker(prop, shard, 1800)
        if "_dead" in res:
            print(f"INCONCLUSIVE property={prop} replay worker died: {res['_dead']}")
            return 2
        known = load_known(prop)
        bad = [f for f in res.get("findings", []) if f["sig"] not in known]
        for f in res.get("findings", []):
            print(f"  finding sig={f['sig']} what={f['what']}")
        if bad:
            print(f"VIOLATION property={prop} replay={os.path.abspath(args.replay)}")
            return 1
        print(f"replay: no violation reproduced for {args.replay}")
        return 0

    shards = mod.plan(args.tier, args.seed)
    timeout = float(meta.get("shard_timeout", {}).get(args.tier, 900 if args.tier == "quick" else 5400))
    results: List[Dict[str, Any]] = []
    with concurrent.futures.ThreadPoolExecutor(max_workers=max(1, min(args.jobs, len(shards)))) as ex:
        futs = [ex.submit(run_worker, prop, sh, timeout) for sh in shards]
        for fu in futs:
            results.append(fu.result())
    m = merge(results)

    if hasattr(mod, "finalize"):
        mod.finalize(m["counters"])
    known = load_known(prop)
    inconclusive: List[str] = []
    if dep_err:
        inconclusive.append(f"setup: {dep_err}")
    inconclusive.extend(m["dead"])
    inconclusive.extend(m["inconclusive"])
    for name, floor in meta.get("floors", {}).get(args.tier, {}).items():
        got = m["counters"].get(name, 0)
        if got < floor:
            inconclusive.append(f"coverage floor missed: {name}={got} < {floor}")
        elif os.environ.get("VERIF_MARGINS") and got < 1.3 * floor:
            print(f"MARGIN property={prop} tier={args.tier} seed={args.seed} {name}={got} floor={floor} (less than 30% above the floor)")

    known_hits: Dict[str, int] = {}
    violations: List[Dict[str, Any]] = []
    seen_sig: Dict[str, int] = {}
    for f in m["findings"]:
        if f["sig"] in known:
            known_hits[f["sig"]] = m["finding_counts"].get(f["sig"], 1)
            continue
        seen_sig[f["sig"]] = seen_sig.get(f["sig"], 0) + 1
        if seen_sig[f["sig"]] <= 2 and len(violations) < 12:
            violations.append(f)
    for sig, n in known_hits.items():
        print(f"KNOWN-FINDING: property={prop} {known[sig]['what']} [sig={sig}; {n} occurrence(s) in this run]")
    replay_paths = []
    for f in violations:
        path = write_replay(prop, f)
        replay_paths.append(path)
        print(f"VIOLATION property={prop} replay={path}")
        print(f"  sig={f['sig']} what={f['what']}")
    n_viol = sum(n for sig, n in m["finding_counts"].items() if sig not in known)

    wall = time.time() - t0
    coverage = {
        "evaluations": m["evaluations"],
        "distinct_nontrivial": len(m["nontrivial"]),
        "rule": meta["rule"],
        "samples": m["samples"] if m["samples"] else [],
        "counters": dict(sorted(m["counters"].items())),
        "histograms": m["hists"],
        "memo_shadow": m["memo"],
        "library_warnings": m["warnings"],
        "known_finding_matches": known_hits,
        "unlisted_findings_by_signature": {k: v for k, v in m["finding_counts"].items() if k not in known},
        "shards": len(shards),
        "inconclusive": inconclusive,
        "verdict": "violated" if n_viol else ("inconclusive" if inconclusive else "held on what was observed"),
    }
    if meta.get("exhaustive", {}).get(args.tier):
        coverage["exhaustive"] = True
    evidence = {
        "property_id": prop,
        "tier": args.tier,
        "seed": args.seed,
        "level": meta.get("level", "exploration"),
        "coverage": coverage,
        "assumptions": meta.get("assumptions", []),
        "wall_s": round(wall, 2),
        "violations": n_viol,
    }
    if not args.no_evidence:
        os.makedirs(os.path.join(VERIF_DIR, "evidence"), exist_ok=True)
        with open(os.path.join(VERIF_DIR, "evidence", f"{prop}.json"), "w") as fh:
            json.dump(evidence, fh, indent=1, default=str)
        err = validate_evidence(evidence)
        if err and not n_viol:
            inconclusive.append(f"evidence invalid: {err}")
    print(f"{prop} tier={args.tier} seed={args.seed}: {m['evaluations']} evaluations, "
          f"{len(m['nontrivial'])} distinct non-trivial, {n_viol} unlisted finding(s), "
          f"{sum(known_hits.values())} known-finding occurrence(s), {wall:.1f}s")
    if n_viol:
        return 1
    if inconclusive:
        for msg in inconclusive[:10]:
            print(f"INCONCLUSIVE property={prop} {msg[:600]}")
        return 2
    return 0


if __name__ == "__main__":
    sys.exit(main())
