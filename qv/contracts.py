"""Structural contracts on the real classes (icontract), applied from the harness without editing the repository.

* postcondition on ``CircuitGraphBranch.append_pointers_to`` (the only mutator of the relation graph): the pointer
  structure between entry and end node is a tree; the cached layer iterator equals the breadth-first layers
  recomputed from the pointers; cached leaves == nodes whose only outgoing pointer is the end node == the end node's
  incoming pointers; no operation is held by two nodes;
* pre/postcondition pair on ``CircuitGraphBranch.add_to_graph``: exactly one node is added, it carries exactly the
  given operation, and the nodes present before are still present in the same relative order;
* postcondition on ``CircuitCompositeOperation.apply_modifiers_to_self``: afterwards every repetition count is 1.

Every contract counts its evaluations (``COUNTS``); a check that needs a contract and sees zero evaluations is
inconclusive (references bound before decoration bypass the contract).
"""
from typing import Any, Dict, List

COUNTS: Dict[str, int] = {"graph_invariant": 0, "add_to_graph_post": 0, "apply_modifiers_post": 0}
ENABLED = {"graph": True}
_INSTALLED = False


class GraphBroken(Exception):
    pass


class AddBroken(Exception):
    pass


class ModifiersBroken(Exception):
    pass


def graph_problem(graph) -> str:
    """Return '' when the invariant holds, else a description."""
    entry, end = graph._entrypoint_node, graph._endpoint_node
    layers: List[List[Any]] = []
    seen = set()
    current = [entry]
    leaves = []
    guard = 0
    while current:
        guard += 1
        if guard > 6000:
            return "layer recomputation does not terminate (cycle)"
        layers.append(current)
        nxt = []
        for node in current:
            if id(node) in seen:
                return f"node {node!r} reachable along two paths (not a tree)"
            seen.add(id(node))
            outs = [n for n in node.outgoing_pointers if n is not end]
            if not outs:
                leaves.append(node)
                if len(node.outgoing_pointers) != 1 or node.outgoing_pointers[0] is not end:
                    return f"leaf {node!r} does not point at the end node only"
            elif any(n is end for n in node.outgoing_pointers):
                return f"inner node {node!r} also points at the end node"
            for n in outs:
                if not any(p is node for p in n.incoming_pointers):
                    return f"pointer {node!r}->{n!r} has no matching incoming pointer"
                if len(n.incoming_pointers) != 1:
                    return f"node {n!r} has {len(n.incoming_pointers)} incoming pointers"
            nxt.extend(outs)
        current = nxt
    cached = graph._cached_branch_iterator
    if len(cached) != len(layers) or any(len(a) != len(b) or any(x is not y for x, y in zip(a, b)) for a, b in zip(cached, layers)):
        return "cached layer iterator differs from breadth-first layers recomputed from the pointers"
    cl = graph._cached_leaf_nodes
    if len(cl) != len(leaves) or any(x is not y for x, y in zip(cl, leaves)):
        return "cached leaf nodes differ from the nodes whose only outgoing pointer is the end node"
    inc = end.incoming_pointers
    if len(inc) != len(leaves) or {id(n) for n in inc} != {id(n) for n in leaves}:
        return "incoming pointers of the end node differ from the leaves"
    ops = [id(n.operation) for layer in layers for n in layer if hasattr(n, "operation")]
    if len(ops) != len(set(ops)):
        return "one operation is held by two graph nodes"
    return ""


def _graph_ok(self, result) -> bool:
    if not ENABLED["graph"]:
        return True
    COUNTS["graph_invariant"] += 1
    msg = graph_problem(self)
    if msg:
        raise GraphBroken(msg)
    return True


def _nodes_before(graph) -> List[Any]:
    if not ENABLED["graph"]:
        return []
    return list(graph.get_node_iterator())


def _add_ok(graph, operation, result, OLD) -> bool:
    if not ENABLED["graph"]:
        return True
    COUNTS["add_to_graph_post"] += 1
    before = OLD.nodes
    after = list(result.get_node_iterator())
    if result is not graph:
        raise AddBroken("add_to_graph returned a different graph")
    if len(after) != len(before) + 1:
        raise AddBroken(f"node count {len(before)} -> {len(after)} after adding one operation")
    new = [n for n in after if not any(n is b for b in before)]
    if len(new) != 1 or new[0].operation is not operation:
        raise AddBroken("the added node does not carry exactly the given operation")
    it = iter(after)
    for b in before:
        for a in it:
            if a is b:
                break
        else:
            raise AddBroken("nodes present before the add are not in the same relative order afterwards")
    return True


def _modifiers_ok(self, result) -> bool:
    COUNTS["apply_modifiers_post"] += 1
    stack = [self]
    while stack:
        comp = stack.pop()
        if comp.nr_of_repetitions != 1:
            raise ModifiersBroken(f"repetition count {comp.nr_of_repetitions} left after apply_modifiers_to_self")
        for node in comp._circuit_graph.get_node_iterator():
            if hasattr(node.operation, "_circuit_graph"):
                stack.append(node.operation)
    return True


def install() -> bool:
    """Decorate the real classes in place.  Returns False when icontract is unavailable."""
    global _INSTALLED
    if _INSTALLED:
        return True
    try:
        import icontract
    except Exception:
        return False
    from qce_circuit.structure.intrf_circuit_operation_composite import CircuitGraphBranch, CircuitCompositeOperation

    CircuitGraphBranch.append_pointers_to = icontract.ensure(_graph_ok, error=GraphBroken)(
        CircuitGraphBranch.append_pointers_to)

    raw_add = CircuitGraphBranch.__dict__["add_to_graph"].__func__
    decorated = icontract.snapshot(_nodes_before, name="nodes")(
        icontract.ensure(_add_ok, error=AddBroken)(raw_add))
    CircuitGraphBranch.add_to_graph = staticmethod(decorated)

    CircuitCompositeOperation.apply_modifiers_to_self = icontract.ensure(_modifiers_ok, error=ModifiersBroken)(
        CircuitCompositeOperation.apply_modifiers_to_self)
    _INSTALLED = True
    return True


def drain() -> Dict[str, int]:
    out = dict(COUNTS)
    for k in COUNTS:
        COUNTS[k] = 0
    return out
