"""Greedy shrinking of build programs while a predicate (the violation) persists."""
import copy
import json
from typing import Any, Callable, Dict, Iterator, List


def _levels(circ: Dict[str, Any], path=()) -> Iterator:
    yield path, circ
    for i, st in enumerate(circ["steps"]):
        if "sub" in st:
            yield from _levels(st["sub"], path + (i,))


def _get(circ: Dict[str, Any], path) -> Dict[str, Any]:
    for i in path:
        circ = circ["steps"][i]["sub"]
    return circ


def _remove_step(level: Dict[str, Any], i: int) -> bool:
    """Remove step i, re-indexing relations; relations that pointed at i are dropped."""
    steps = level["steps"]
    del steps[i]
    for st in steps:
        rel = st.get("rel")
        if rel:
            if rel[1] == i:
                st.pop("rel")
            elif rel[1] > i:
                rel[1] -= 1
    return True


def candidates(prog: Dict[str, Any]) -> Iterator[Dict[str, Any]]:
    circ = prog["circuit"]
    paths = [p for p, _ in _levels(circ)]
    # drop whole steps (largest effect first: later steps first keeps indices simple)
    for path in paths:
        n = len(_get(circ, path)["steps"])
        for i in reversed(range(n)):
            c = copy.deepcopy(prog)
            _remove_step(_get(c["circuit"], path), i)
            yield c
    # unwrap sub-circuits with reps 1 into nothing / reduce reps
    for path in paths:
        lvl = _get(circ, path)
        r = lvl.get("reps", 1)
        if isinstance(r, dict) or r > 1:
            c = copy.deepcopy(prog)
            l2 = _get(c["circuit"], path)
            l2["reps"] = 1 if isinstance(r, dict) else r - 1
            yield c
    # simplify leaves
    for path in paths:
        lvl = _get(circ, path)
        for i, st in enumerate(lvl["steps"]):
            if "sub" in st:
                continue
            for key in ("rel", "chan", "dur", "tag", "f", "reg_of"):
                if st.get(key) not in (None, "", {}):
                    c = copy.deepcopy(prog)
                    _get(c["circuit"], path)["steps"][i].pop(key, None)
                    yield c
            if st.get("rel") and st["rel"][0] != "FOLLOWED_BY":
                c = copy.deepcopy(prog)
                _get(c["circuit"], path)["steps"][i]["rel"][0] = "FOLLOWED_BY"
                yield c
    # default settings
    s = prog.get("settings") or {}
    if s.get("glob"):
        c = copy.deepcopy(prog)
        c["settings"]["glob"] = {}
        yield c


def shrink(prog: Dict[str, Any], fails: Callable[[Dict[str, Any]], bool], budget: int = 400) -> Dict[str, Any]:
    """Return a smaller program on which ``fails`` still returns True (``prog`` itself must fail)."""
    best = prog
    evals = 0
    improved = True
    while improved and evals < budget:
        improved = False
        for cand in candidates(best):
            evals += 1
            if evals > budget:
                break
            try:
                if fails(cand):
                    best = cand
                    improved = True
                    break
            except Exception:
                continue
    return best


def size(prog: Dict[str, Any]) -> int:
    return len(json.dumps(prog["circuit"]))


def shrink_history(hist: Dict[str, Any], fails: Callable[[Dict[str, Any]], bool], budget: int = 600) -> Dict[str, Any]:
    """Greedy history shrinking: drop observations / setting changes / trailing adds while the failure persists."""
    best = hist
    evals = 0
    improved = True
    while improved and evals < budget:
        improved = False
        n = len(best["events"])
        for i in reversed(range(n)):
            e = best["events"][i]
            if e["ev"] == "add":
                # an add can only be dropped when nothing later refers to a later index: drop trailing adds only
                later_adds = [x for x in best["events"][i + 1:] if x["ev"] in ("add", "grow")]
                if later_adds:
                    continue
            cand = copy.deepcopy(best)
            del cand["events"][i]
            evals += 1
            if evals > budget:
                break
            try:
                if fails(cand):
                    best = cand
                    improved = True
                    break
            except Exception:
                continue
        if improved:
            continue
        # simplify the steps of add events (sub-circuits -> smaller) using the program shrinker's candidates
        for i, e in enumerate(best["events"]):
            if e["ev"] == "add" and "sub" in e["step"]:
                prog = {"circuit": e["step"]["sub"], "settings": {}}
                for c in candidates(prog):
                    cand = copy.deepcopy(best)
                    cand["events"][i]["step"]["sub"] = c["circuit"]
                    evals += 1
                    if evals > budget:
                        break
                    try:
                        if fails(cand):
                            best = cand
                            improved = True
                            break
                    except Exception:
                        continue
            if improved:
                break
    return best
