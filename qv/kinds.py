"""Operation kinds: discovery by introspection of the tree under test + the model's own channel/duration table.

The table below is written from the class doc strings / documentation ("Reset operation covers all qubit
channels", "Channel reserved for microwave operations", ...) and is the *specification* side.  The
constructors are discovered from the dataclass fields of every concrete ``ICircuitOperation`` subclass in
``structure/circuit_operations.py`` and ``addon_stim/circuit_operations.py`` so that a kind added later is
exercised automatically (with the model falling back to the object's own channel list, counted).
"""
import dataclasses
import inspect
from typing import Any, Dict, List, Optional, Tuple

# ---- specification table ------------------------------------------------------------------------------
# arity: 1 = single qubit, 2 = (control, target), "n" = list of qubits
# chan : tuple of channels occupied on each qubit, or "cfg" = taken from the qubit_channel argument (default ALL)
# dur  : ("global", KEY) | ("fixed", value) | "cfg" = duration strategy is a constructor argument (default 0.0)
SPEC: Dict[str, Dict[str, Any]] = {
    "SingleQubitOperation":   dict(arity=1, chan=("ALL",), dur="cfg"),
    "Reset":                  dict(arity=1, chan=("ALL",), dur=("global", "RESET")),
    "Wait":                   dict(arity=1, chan="cfg", dur="cfg"),
    "Identity":               dict(arity=1, chan=("MICROWAVE",), dur=("global", "MICROWAVE")),
    "Hadamard":               dict(arity=1, chan=("MICROWAVE",), dur=("global", "MICROWAVE")),
    "Rx180":                  dict(arity=1, chan=("MICROWAVE",), dur=("global", "MICROWAVE")),
    "Rx90":                   dict(arity=1, chan=("MICROWAVE",), dur=("global", "MICROWAVE")),
    "Rxm90":                  dict(arity=1, chan=("MICROWAVE",), dur=("global", "MICROWAVE")),
    "Ry180":                  dict(arity=1, chan=("MICROWAVE",), dur=("global", "MICROWAVE")),
    "Ry90":                   dict(arity=1, chan=("MICROWAVE",), dur=("global", "MICROWAVE")),
    "Rym90":                  dict(arity=1, chan=("MICROWAVE",), dur=("global", "MICROWAVE")),
    "Rx180ef":                dict(arity=1, chan=("MICROWAVE",), dur=("global", "MICROWAVE")),
    "VirtualPhase":           dict(arity=1, chan=("MICROWAVE",), dur=("global", "MICROWAVE")),
    "Rphi90":                 dict(arity=1, chan=("MICROWAVE",), dur=("global", "MICROWAVE")),
    "VirtualPark":            dict(arity=1, chan=("FLUX",), dur=("global", "FLUX")),
    "TwoQubitOperation":      dict(arity=2, chan=("ALL",), dur="cfg"),
    "CPhase":                 dict(arity=2, chan=("FLUX", "MICROWAVE"), dur=("global", "FLUX")),
    "TwoQubitVirtualPhase":   dict(arity=2, chan=("MICROWAVE",), dur=("fixed", 0.0)),
    "DispersiveMeasure":      dict(arity=1, chan=("READOUT",), dur=("global", "READOUT")),
    "Barrier":                dict(arity="n", chan=("ALL",), dur=("fixed", 0.5)),
    "VirtualVacant":          dict(arity=1, chan="cfg", dur="cfg"),
    "VirtualTwoQubitVacant":  dict(arity=2, chan="cfg", dur="cfg"),
    "VirtualEmpty":           dict(arity=1, chan="cfg", dur="cfg"),
    "CoordinateShiftOperation": dict(arity="n", chan=("ALL",), dur=("fixed", 0.0)),
    "DetectorOperation":      dict(arity=1, chan=("ALL",), dur=("fixed", 0.0)),
    "LogicalObservableOperation": dict(arity=1, chan=("ALL",), dur=("fixed", 0.0)),
}

CHANNELS = ("READOUT", "MICROWAVE", "FLUX", "ALL")
GLOBAL_KEYS = ("READOUT", "MICROWAVE", "FLUX", "RESET")
DEFAULT_GLOBAL = {"READOUT": 2.0, "MICROWAVE": 1.0, "FLUX": 1.0, "RESET": 2.0}

_DISCOVERED: Optional[Dict[str, Dict[str, Any]]] = None


def discover() -> Dict[str, Dict[str, Any]]:
    """Concrete operation classes of the tree under test, with the constructor shape read from the dataclass."""
    global _DISCOVERED
    if _DISCOVERED is not None:
        return _DISCOVERED
    import qce_circuit.structure.circuit_operations as m1
    import qce_circuit.addon_stim.circuit_operations as m2
    from qce_circuit.structure.intrf_circuit_operation import ICircuitOperation
    out: Dict[str, Dict[str, Any]] = {}
    for mod in (m1, m2):
        for name, cls in vars(mod).items():
            if not inspect.isclass(cls) or cls.__module__ != mod.__name__:
                continue
            if not issubclass(cls, ICircuitOperation) or inspect.isabstract(cls):
                continue
            if not dataclasses.is_dataclass(cls):
                continue
            init_fields = {f.name: f for f in dataclasses.fields(cls) if f.init}
            if "qubit_indices" in init_fields:
                arity: Any = "n"
            elif "control_qubit_index" in init_fields and "target_qubit_index" in init_fields:
                arity = 2
            elif "qubit_index" in init_fields:
                arity = 1
            else:
                continue
            extra = [n for n in init_fields if n not in (
                "qubit_indices", "control_qubit_index", "target_qubit_index", "qubit_index", "relation",
                "duration_strategy", "qubit_channel", "acquisition_strategy", "acquisition_tag")]
            out[name] = dict(
                cls=cls,
                arity=arity,
                relation_init="relation" in init_fields,
                dur_cfg="duration_strategy" in init_fields,
                chan_cfg="qubit_channel" in init_fields,
                measure="acquisition_strategy" in init_fields,
                extra=extra,
            )
    _DISCOVERED = out
    return out


def spec_of(kind: str) -> Optional[Dict[str, Any]]:
    return SPEC.get(kind)
