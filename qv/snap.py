"""Observation helpers: listings, signatures, raw and shadow times, read-only structure walks."""
import dataclasses
from typing import Any, Dict, List, Optional, Tuple

from qv import memo_shadow
from qv.kinds import discover

TOL = 1e-9


def op_qubits(op) -> Tuple[int, ...]:
    if hasattr(op, "qubit_indices"):
        return tuple(op.qubit_indices)
    if hasattr(op, "control_qubit_index"):
        return (op.control_qubit_index, op.target_qubit_index)
    return (op.qubit_index,)


def op_channels(op) -> Tuple[Tuple[int, str], ...]:
    return tuple(sorted((c.id, c.channel.name) for c in op.channel_identifiers))


def op_fields(op) -> Tuple[Tuple[str, Any], ...]:
    info = discover().get(type(op).__name__)
    if not info:
        return ()
    return tuple(sorted((name, getattr(op, name)) for name in info["extra"] if getattr(op, name) is not None))


def op_sig(op) -> Tuple:
    """Signature comparable with ``qv.model.sig``: kind, qubits, channels, duration, tag, extra fields."""
    tag = getattr(op, "acquisition_tag", "") or ""
    return (type(op).__name__, op_qubits(op), op_channels(op), round(float(op.duration), 9), tag, op_fields(op))


def is_composite(op) -> bool:
    from qce_circuit.structure.intrf_circuit_operation_composite import ICircuitCompositeOperation
    return isinstance(op, ICircuitCompositeOperation)


def raw_times(ops) -> List[Tuple[float, float]]:
    """Reported (raw) times.  Not individually monitored: callers compare the whole listing against shadow_times()."""
    with memo_shadow.unmonitored():
        return [(float(op.start_time), float(op.end_time)) for op in ops]


def raw_value(fn):
    with memo_shadow.unmonitored():
        return fn()


def shadow_times(ops) -> List[Tuple[float, float]]:
    with memo_shadow.session():
        return [(float(op.start_time), float(op.end_time)) for op in ops]


def shadow_value(fn):
    with memo_shadow.session():
        return fn()


def walk_nodes(composite) -> List[Any]:
    """Operations held directly by a composite, in its node-iterator order (read-only)."""
    return [node.operation for node in composite._circuit_graph.get_node_iterator()]


def walk_leaves(composite) -> List[Any]:
    """Leaf operations by recursive in-order walk (read-only: does not touch relation links)."""
    out: List[Any] = []
    for op in walk_nodes(composite):
        if is_composite(op):
            out.extend(walk_leaves(op))
        else:
            out.append(op)
    return out


def walk_blocks(composite, path: Tuple[int, ...] = ()) -> List[Tuple[Tuple[int, ...], Any]]:
    out = []
    for i, op in enumerate(walk_nodes(composite)):
        if is_composite(op):
            out.append((path + (i,), op))
            out.extend(walk_blocks(op, path + (i,)))
    return out


def link_info(op) -> Dict[str, Any]:
    """Reference / type of the relation link of an operation without evaluating any time."""
    from qce_circuit.structure.intrf_circuit_operation import RelationLink, MultiRelationLink
    link = op.relation_link
    if isinstance(link, RelationLink):
        return {"kind": "single", "ref": link._reference_node, "type": link._relation_type.name, "link": link}
    if isinstance(link, MultiRelationLink):
        return {"kind": "multi", "refs": list(link._reference_nodes), "type": link._relation_type.name,
                "group": link._relation_to_group.name, "link": link}
    return {"kind": type(link).__name__, "link": link}


def close(a: float, b: float, tol: float = TOL) -> bool:
    return abs(a - b) <= tol * max(1.0, abs(a), abs(b))


def multiset_diff(a: List[Tuple], b: List[Tuple]) -> Tuple[List[Tuple], List[Tuple]]:
    """Elements only in a / only in b (multiset difference)."""
    from collections import Counter
    ca, cb = Counter(a), Counter(b)
    only_a = list((ca - cb).elements())
    only_b = list((cb - ca).elements())
    return only_a, only_b


def rec(sig: Tuple, s: float, e: float) -> Tuple:
    return (sig, round(s, 7), round(e, 7))
