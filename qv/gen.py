"""Seeded generators of build programs, by hostile class."""
import random
from typing import Any, Dict, List, Optional

from qv.kinds import discover, SPEC, CHANNELS

DURS = [0, 0.5, 1, 2, 3, 7.25]
GLOB_GRID = [0.0, 0.25, 0.5, 1.0, 2.0, 3.0, 8.0]
REG_KEYS = ["ra", "rb", "rc"]
REP_KEYS = ["na", "nb"]
TAGS = ["", "a", "b", "c", "A", "a ", "Final", " b"]      # tags are compared as written: case and blanks matter

ZERO_KINDS = ["TwoQubitVirtualPhase", "CoordinateShiftOperation", "DetectorOperation", "LogicalObservableOperation"]
CFG_DUR_KINDS = ["Wait", "SingleQubitOperation", "TwoQubitOperation", "VirtualVacant", "VirtualEmpty", "VirtualTwoQubitVacant"]

BASE_CFG = dict(
    steps=(3, 14), qubits=4, p_sub=0.0, max_depth=0, p_rel=0.0, rel_types=["FOLLOWED_BY", "JOINED_START", "JOINED_END"],
    reps=[1], p_reg_reps=0.0, p_reg_dur=0.15, p_cfg_kind=0.35, p_zero_dur=0.1, kinds=None, p_measure=0.08,
    sub_steps=(1, 6), measure_reg_of=False, p_barrier_rel=0.5, fields=False, p_declare_register=0.0,
    p_block_rel=0.0, block_rel_types=["FOLLOWED_BY", "JOINED_START"],
)

CLASSES: Dict[str, Dict[str, Any]] = {
    "implicit": dict(),
    "explicit": dict(p_rel=0.4),
    "span": dict(p_rel=0.6, rel_types=["JOINED_START", "JOINED_END", "FOLLOWED_BY", "JOINED_END"], p_cfg_kind=0.7, steps=(2, 9)),
    "zero": dict(p_rel=0.25, p_zero_dur=0.5, zero_bias=True),
    "nested": dict(p_sub=0.3, max_depth=3, reps=[1, 1, 2, 3, 4], p_reg_reps=0.2, steps=(2, 8), p_rel=0.15),
    "nested_implicit": dict(p_sub=0.3, max_depth=3, reps=[1, 1, 2, 3, 4], p_reg_reps=0.2, steps=(2, 8)),
    "nested_explicit": dict(p_sub=0.3, max_depth=2, reps=[1, 2, 3], steps=(2, 8), p_rel=0.4),
    "measure": dict(p_sub=0.3, max_depth=3, reps=[1, 1, 2, 3], p_measure=0.5, steps=(2, 8), measure_reg_of=True, qubits=4, p_declare_register=0.25),
    "block_explicit": dict(p_sub=0.4, max_depth=2, reps=[1, 1, 2, 3], steps=(3, 8), p_rel=0.25, p_block_rel=0.6, p_cfg_kind=0.7),
    "block_explicit_je": dict(p_sub=0.5, max_depth=1, reps=[1, 1, 2], steps=(3, 6), p_rel=0.2, p_block_rel=0.9, block_rel_types=["JOINED_END"], p_cfg_kind=0.8),
    "wide": dict(qubits=10, steps=(12, 30), p_rel=0.2, p_sub=0.1, max_depth=1, reps=[1, 2], sub_steps=(2, 6)),
    "long": dict(qubits=3, steps=(40, 110), p_rel=0.1),
    "deepnest": dict(p_sub=0.45, max_depth=5, steps=(1, 4), sub_steps=(1, 3), reps=[1, 1, 2, 3], p_reg_reps=0.2, p_rel=0.15),
    "allkinds": dict(p_rel=0.3, p_sub=0.15, max_depth=1, reps=[1, 2], fields=True, uniform_kinds=True, steps=(4, 14), p_declare_register=0.15),
}


def make_settings(rng: random.Random, default_glob: bool = False) -> Dict[str, Any]:
    if default_glob or rng.random() < 0.25:
        glob = {}
    else:
        glob = {k: rng.choice(GLOB_GRID) for k in ("READOUT", "MICROWAVE", "FLUX", "RESET")}
    # a key may be absent at first (the library then reads its default 0.0) and only be registered by a later set event
    reg = {k: rng.choice(DURS) for k in REG_KEYS if rng.random() < 0.75}
    # repetition keys may be unregistered as well (a registry-provided count then reads the library default 1)
    reps = {k: rng.choice([1, 2, 3]) for k in REP_KEYS if rng.random() < 0.8}
    return {"glob": glob, "reg": reg, "reps": reps}


def _pick_kind(rng: random.Random, cfg: Dict[str, Any]) -> str:
    kinds = cfg.get("kinds") or sorted(discover().keys())
    if cfg.get("uniform_kinds"):
        return rng.choice(kinds)
    r = rng.random()
    if r < cfg["p_measure"] and "DispersiveMeasure" in kinds:
        return "DispersiveMeasure"
    if cfg.get("zero_bias") and rng.random() < 0.4:
        pool = [k for k in ZERO_KINDS if k in kinds]
        if pool:
            return rng.choice(pool)
    if rng.random() < cfg["p_cfg_kind"]:
        pool = [k for k in CFG_DUR_KINDS if k in kinds]
        if pool:
            return rng.choice(pool)
    return rng.choice(kinds)


def gen_leaf(rng: random.Random, cfg: Dict[str, Any], n_prev: int, depth: int) -> Dict[str, Any]:
    kind = _pick_kind(rng, cfg)
    info = discover()[kind]
    nq = cfg["qubits"]
    if info["arity"] == "n":
        q = rng.sample(range(nq), rng.randint(1, min(3, nq)))
    elif info["arity"] == 2:
        q = rng.sample(range(nq), 2)
    else:
        q = [rng.randrange(nq)]
    step: Dict[str, Any] = {"k": kind, "q": q}
    if info["dur_cfg"]:
        r = rng.random()
        if r < cfg["p_reg_dur"]:
            step["dur"] = {"reg": rng.choice(REG_KEYS)}
        elif r < cfg["p_reg_dur"] + cfg["p_zero_dur"]:
            step["dur"] = 0
        elif r < 0.9:
            step["dur"] = rng.choice(DURS)
        elif r < 0.95:
            step["dur"] = {"glob": rng.choice(["READOUT", "MICROWAVE", "FLUX", "RESET"])}
        # else: leave the kind's default (0.0)
    if info["chan_cfg"] and rng.random() < 0.7:
        step["chan"] = rng.choice(CHANNELS)
    if info["measure"]:
        step["tag"] = rng.choice(TAGS)
        if cfg["measure_reg_of"] and depth > 0:
            step["reg_of"] = rng.randint(0, depth)
    if cfg.get("fields") and info["extra"]:
        step["f"] = gen_fields(rng, kind, info["extra"])
    can_rel = info["relation_init"] or rng.random() < cfg["p_barrier_rel"]
    if n_prev > 0 and can_rel and rng.random() < cfg["p_rel"]:
        step["rel"] = [rng.choice(cfg["rel_types"]), rng.randrange(n_prev)]
    return step


def gen_fields(rng: random.Random, kind: str, extra: List[str]) -> Dict[str, Any]:
    f: Dict[str, Any] = {}
    if kind == "DetectorOperation":
        shape = rng.randrange(6)
        last = rng.randint(0, 12)
        f["last_acquisition_index"] = last
        if shape >= 1:
            f["main_target"] = rng.randint(0, last)
        if shape in (2, 4, 5):
            f["reference_offset"] = rng.randint(1, 4)
        if shape in (3, 4, 5):
            f["secondary_target"] = rng.randint(0, last)
        if shape == 5:
            f["secondary_offset"] = rng.randint(1, 4)
    elif kind == "LogicalObservableOperation":
        last = rng.randint(0, 12)
        if rng.random() < 0.85:
            f["last_acquisition_index"] = last
            f["main_target"] = rng.randint(0, last)
    elif kind == "CoordinateShiftOperation":
        f["time_shift"] = rng.randint(0, 3)
        f["space_shift"] = rng.randint(0, 3)
    else:
        for name in extra:
            f[name] = rng.randint(0, 5)
    return f


def gen_circuit(rng: random.Random, cfg: Dict[str, Any], depth: int = 0) -> Dict[str, Any]:
    lo, hi = cfg["steps"] if depth == 0 else cfg["sub_steps"]
    n = rng.randint(lo, hi)
    steps: List[Dict[str, Any]] = []
    for _ in range(n):
        if depth < cfg["max_depth"] and rng.random() < cfg["p_sub"]:
            step = {"sub": gen_circuit(rng, cfg, depth + 1)}
            if rng.random() < 0.25:
                step["as_structure"] = True
            if steps and cfg.get("p_block_rel") and rng.random() < cfg["p_block_rel"]:
                # the sub-circuit itself carries an explicit relation to an earlier entry of this level
                step["rel"] = [rng.choice(cfg["block_rel_types"]), rng.randrange(len(steps))]
            steps.append(step)
        else:
            steps.append(gen_leaf(rng, cfg, len(steps), depth))
    if depth == 0:
        reps: Any = 1 if rng.random() < 0.8 else rng.choice(cfg["reps"])
    elif rng.random() < cfg["p_reg_reps"]:
        reps = {"reg": rng.choice(REP_KEYS)}
    else:
        reps = rng.choice(cfg["reps"])
    out = {"reps": reps, "steps": steps}
    if cfg.get("p_declare_register") and rng.random() < cfg["p_declare_register"]:
        # declared register sizes below, at and above the qubit indices actually used (the declaration is not enforced by the library)
        out["nq"] = rng.choice([1, 2, 3, cfg["qubits"], cfg["qubits"] + 4])
    return out


def gen_program(rng: random.Random, cls: str, **over) -> Dict[str, Any]:
    cfg = dict(BASE_CFG)
    cfg.update(CLASSES[cls])
    cfg.update(over)
    return {"class": cls, "circuit": gen_circuit(rng, cfg), "settings": make_settings(rng)}


def gen_span_hostile(rng: random.Random) -> Dict[str, Any]:
    """Long operation with a short JOINED_*/FOLLOWED_BY successor; JOINED_END with a longer duration."""
    long_d = rng.choice([5, 7.25, 10])
    short_d = rng.choice([0, 0.5, 1])
    pat = rng.randrange(6)
    q = [0, 1, 2, 3]
    rng.shuffle(q)
    steps: List[Dict[str, Any]]
    if pat == 0:    # long op, short JOINED_START successor (leaf ends first)
        steps = [{"k": "Wait", "q": [q[0]], "dur": long_d},
                 {"k": "Wait", "q": [q[1]], "dur": short_d, "rel": ["JOINED_START", 0]}]
    elif pat == 1:  # short op, long JOINED_END successor (starts before the first-added one)
        steps = [{"k": "Wait", "q": [q[0]], "dur": short_d},
                 {"k": "Wait", "q": [q[1]], "dur": long_d, "rel": ["JOINED_END", 0]}]
    elif pat == 2:  # long op, short JOINED_END successor, then follower of the short one
        steps = [{"k": "Wait", "q": [q[0]], "dur": long_d},
                 {"k": "Wait", "q": [q[1]], "dur": short_d, "rel": ["JOINED_END", 0]},
                 {"k": "Rx180", "q": [q[2]], "rel": ["JOINED_START", 1]}]
    elif pat == 3:  # two branches of unequal length, successor attached to the short branch
        steps = [{"k": "Wait", "q": [q[0]], "dur": long_d},
                 {"k": "Wait", "q": [q[1]], "dur": short_d},
                 {"k": "Rx180", "q": [q[1]]}]
    elif pat == 4:  # chain behind a JOINED_END op that starts before time zero
        steps = [{"k": "Rx180", "q": [q[0]]},
                 {"k": "Wait", "q": [q[1]], "dur": long_d, "rel": ["JOINED_END", 0]},
                 {"k": "Wait", "q": [q[2]], "dur": short_d, "rel": ["JOINED_START", 1]}]
    else:           # non-leaf long op with zero-length leaf
        steps = [{"k": "Wait", "q": [q[0]], "dur": long_d},
                 {"k": "TwoQubitVirtualPhase", "q": [q[0], q[1]], "rel": ["JOINED_START", 0]}]
    # random tail and optional nesting of the pattern
    cfg = dict(BASE_CFG)
    cfg.update(CLASSES["span"])
    for _ in range(rng.randint(0, 4)):
        steps.append(gen_leaf(rng, cfg, len(steps), 0))
    circ: Dict[str, Any] = {"reps": 1, "steps": steps}
    mode = rng.randrange(4)
    if mode == 1:       # pattern nested, followed by an operation
        circ = {"reps": 1, "steps": [{"sub": {"reps": rng.choice([1, 2]), "steps": steps}},
                                      {"k": "Rx180", "q": [rng.randrange(4)]}]}
    elif mode == 2:     # something first, then the nested pattern, then a follower
        circ = {"reps": 1, "steps": [{"k": "Rx180", "q": [rng.randrange(4)]},
                                      {"sub": {"reps": 1, "steps": steps}},
                                      {"k": "Reset", "q": [rng.randrange(4)]}]}
    return {"class": "span-hostile", "circuit": circ, "settings": make_settings(rng)}


def add_shared_link_twins(rng: random.Random, circ: Dict[str, Any], p: float = 0.5, nested_only: bool = True, depth: int = 0) -> int:
    """Append to (nested) sub-circuits a twin of one explicitly related leaf step: same kind, qubits and duration, related through the SAME
    RelationLink instance - two distinct operations that are equal by value (seeded change C02-r13: a copy skipped operations that were
    "already in" a value-keyed lookup).  Appending keeps every step index valid.  Returns the number of twins added."""
    added = 0
    for st in list(circ["steps"]):
        if "sub" in st:
            added += add_shared_link_twins(rng, st["sub"], p, nested_only, depth + 1)
    if (depth > 0 or not nested_only) and rng.random() < p:
        cands = [j for j, st in enumerate(circ["steps"]) if "sub" not in st and st.get("rel") and st["k"] not in ("DispersiveMeasure",)
                 and "sub" not in circ["steps"][st["rel"][1]]]
        if cands:
            j = rng.choice(cands)
            twin = {k: (list(v) if isinstance(v, list) else v) for k, v in circ["steps"][j].items()}
            twin["share_link_of"] = j
            circ["steps"].append(twin)
            added += 1
    return added
