"""Memo-shadow monitor: the "sanitizer" for the process-wide start-time memo.

``RelationLink.get_start_time`` and ``MultiRelationLink.get_start_time`` are ``functools.lru_cache``d on
``(link, own duration)`` although the value also depends on every upstream operation and on the duration
settings.  This module replaces both class attributes by a forwarding wrapper that

* forwards every call unchanged to the original ``lru_cache`` object (same positional/keyword form, so the
  cache keys are the ones the library itself would create) and re-exports ``cache_clear`` / ``cache_info``
  (``display_circuit`` clears the cache through the class attribute);
* on every *outermost* call additionally evaluates the **shadow** value: the repository's own undecorated
  equation (``__wrapped__``) evaluated recursively with a per-query memo keyed on link *identity* that is
  thrown away afterwards.  The process-wide memo is neither read nor written nor cleared by the shadow
  evaluation, so the system under test is not healed by being watched.

A harness can also open a :func:`session` in which *all* time queries are answered by the shadow
evaluation (one memo for the whole session) to obtain shadow times of a listing cheaply.
"""
import contextlib
import sys
from typing import Any, Dict, List, Optional

TOL = 1e-9


class _State:
    def __init__(self):
        self.installed = False
        self.mode = "raw"          # "raw" | "shadow"
        self.depth = 0             # nesting of raw calls (outermost detection)
        self.monitor = True        # compare raw vs shadow on outermost raw calls
        self.memo: Optional[Dict] = None
        self.queries = 0           # all raw calls that reached the wrapper
        self.outermost = 0         # outermost raw calls (compared)
        self.shadow_evals = 0
        self.discrepancies: List[Dict[str, Any]] = []
        self.disc_count = 0
        self.max_records = 50
        self.step = 0              # logical step of the driving history (set by harness)
        self.label = ""            # label of the public call in progress (set by harness)
        self.inconclusive = 0      # shadow evaluation failed (RecursionError)
        self.orig: Dict[str, Any] = {}
        self.sample_full = 40      # outermost calls compared unconditionally after each drain()
        self.sample_stride = 23    # afterwards every n-th outermost call is compared (harness compares listings itself)
        self.seen_outer = 0
        self.benign_has_relation = 0


STATE = _State()


def _api_frame():
    """(name of the outermost repository function on the stack, whether the value is only consumed by has_relation)."""
    f = sys._getframe(2)
    name = "?"
    none_check_only = False
    while f is not None:
        fn = f.f_code.co_filename
        if "qce_circuit" in fn:
            name = f"{fn.rsplit('/', 1)[-1]}:{f.f_code.co_name}"
            if f.f_code.co_name == "has_relation":
                none_check_only = True
        f = f.f_back
    return name, none_check_only


def _make_wrapper(clsname: str, orig):
    raw_fn = orig.__wrapped__
    st = STATE

    def get_start_time(self, *args, **kwargs):
        if st.mode == "shadow":
            duration = args[0] if args else kwargs.get("duration")
            key = (id(self), duration)
            hit = st.memo.get(key)
            if hit is not None:
                return hit[0]
            st.shadow_evals += 1
            value = raw_fn(self, *args, **kwargs)
            st.memo[key] = (value, self)   # keep the link alive: ids must not be recycled within a session
            return value
        st.queries += 1
        if st.depth > 0 or not st.monitor:
            st.depth += 1
            try:
                return orig(self, *args, **kwargs)
            finally:
                st.depth -= 1
        st.depth += 1
        try:
            raw = orig(self, *args, **kwargs)
        finally:
            st.depth -= 1
        st.seen_outer += 1
        if st.seen_outer > st.sample_full and st.seen_outer % st.sample_stride:
            return raw
        st.outermost += 1
        st.mode = "shadow"
        st.memo = {}
        try:
            shadow = raw_fn(self, *args, **kwargs)
        except RecursionError:
            shadow = None
            st.inconclusive += 1
        finally:
            st.mode = "raw"
            st.memo = None
        if shadow is not None and abs(raw - shadow) > TOL:
            api, none_check_only = _api_frame()
            if none_check_only:
                # IRelationComponent.has_relation only tests the reference for None: the (stale) time cannot reach a caller
                st.benign_has_relation += 1
                return raw
            st.disc_count += 1
            if len(st.discrepancies) < st.max_records:
                st.discrepancies.append({
                    "link": clsname,
                    "raw": raw,
                    "shadow": shadow,
                    "api": api,
                    "step": st.step,
                    "label": st.label,
                })
        return raw

    get_start_time.cache_clear = orig.cache_clear
    get_start_time.cache_info = orig.cache_info
    get_start_time.__wrapped__ = raw_fn
    get_start_time._qv_orig = orig
    return get_start_time


def install():
    """Install the wrapper on both link classes (idempotent)."""
    if STATE.installed:
        return STATE
    from qce_circuit.structure.intrf_circuit_operation import RelationLink, MultiRelationLink
    for cls in (RelationLink, MultiRelationLink):
        orig = cls.__dict__["get_start_time"]
        if not hasattr(orig, "__wrapped__") or not hasattr(orig, "cache_clear"):
            # The tree under test no longer memoises this method: forward plainly, shadow == raw by construction.
            STATE.orig[cls.__name__] = None
            continue
        STATE.orig[cls.__name__] = orig
        setattr(cls, "get_start_time", _make_wrapper(cls.__name__, orig))
    _wrap_composite_duration()
    STATE.installed = True
    return STATE


def _wrap_composite_duration():
    """Within ONE shadow query the duration of a sub-circuit is a pure function of the (unchanged) structure: cache it
    for the lifetime of that query only, otherwise the memo-free evaluation is exponential in the nesting depth."""
    from qce_circuit.structure.intrf_circuit_operation_composite import CircuitCompositeOperation
    prop = CircuitCompositeOperation.__dict__.get("duration")
    if not isinstance(prop, property):
        return
    fget = prop.fget
    st = STATE

    def duration(self):
        if st.mode != "shadow":
            return fget(self)
        key = (id(self), "duration")
        hit = st.memo.get(key)
        if hit is not None:
            return hit[0]
        value = fget(self)
        st.memo[key] = (value, self)
        return value

    CircuitCompositeOperation.duration = property(duration, prop.fset, prop.fdel, prop.__doc__)


@contextlib.contextmanager
def session():
    """All time queries inside are answered by the shadow evaluation, sharing one throw-away memo."""
    st = STATE
    if not st.installed:
        yield
        return
    prev_mode, prev_memo = st.mode, st.memo
    st.mode, st.memo = "shadow", ({} if prev_mode != "shadow" else prev_memo)
    try:
        yield
    finally:
        st.mode, st.memo = prev_mode, prev_memo


@contextlib.contextmanager
def unmonitored():
    """Raw calls inside are not compared (used when the harness reads raw values it compares itself)."""
    st = STATE
    prev = st.monitor
    st.monitor = False
    try:
        yield
    finally:
        st.monitor = prev


def drain() -> Dict[str, Any]:
    """Return and reset counters/discrepancies."""
    st = STATE
    out = {
        "queries": st.queries,
        "outermost": st.outermost,
        "shadow_evals": st.shadow_evals,
        "discrepancy_count": st.disc_count,
        "discrepancies": st.discrepancies,
        "inconclusive": st.inconclusive,
        "benign_has_relation": st.benign_has_relation,
    }
    st.queries = st.outermost = st.shadow_evals = st.disc_count = st.inconclusive = st.seen_outer = st.benign_has_relation = 0
    st.discrepancies = []
    return out


def memo_sizes() -> Dict[str, int]:
    out = {}
    for name, orig in STATE.orig.items():
        out[name] = orig.cache_info().currsize if orig is not None else -1
    return out
