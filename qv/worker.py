"""Worker process: runs one shard of one property's workload under the monitors and prints the result."""
import importlib
import json
import sys
import traceback
import warnings


def main() -> int:
    prop = sys.argv[1]
    shard = json.loads(sys.stdin.read())
    from qv import env
    env.bootstrap()
    from qv import memo_shadow
    memo_shadow.install()
    mod = importlib.import_module(f"qv.props.{prop.lower()}")
    wcount = {}
    with warnings.catch_warnings(record=True) as wlist:
        warnings.simplefilter("always")
        try:
            if shard.get("kind") == "replay":
                acc = mod.replay(shard)
            else:
                acc = mod.run_shard(shard)
            res = acc.to_json()
        except Exception:
            res = {"evaluations": 0, "inconclusive": ["worker exception: " + traceback.format_exc()[-1500:]]}
    for w in wlist:
        key = w.category.__name__ + ":" + str(w.message).split("(")[0][:40]
        wcount[key] = wcount.get(key, 0) + 1
    res["warnings"] = wcount
    memo = memo_shadow.drain()
    res["memo"] = {k: v for k, v in memo.items() if isinstance(v, int)}
    if memo["discrepancy_count"] and "findings" in res and not getattr(mod, "HANDLES_MEMO", False):
        # a memo discrepancy the property module did not classify itself is reported as is
        res["findings"].append({"sig": "stale-memo/unclassified", "what": "raw start time differs from memo-free evaluation",
                                "case": shard, "detail": memo["discrepancies"][:3]})
        res.setdefault("finding_counts", {})["stale-memo/unclassified"] = memo["discrepancy_count"]
    sys.stdout.write("\nRESULT " + json.dumps(res, default=str) + "\n")
    return 0


if __name__ == "__main__":
    sys.exit(main())
