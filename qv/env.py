"""Environment bootstrap: put the tree under test first on sys.path.

The tree under test is ``$VERIF_REPO`` (default ``/repo``).  ``$VERIF_REPO/src`` shadows the
editable install, so every check exercises the *current working tree* of the selected copy.
"""
import os
import sys

VERIF_DIR = os.path.dirname(os.path.dirname(os.path.abspath(__file__)))
REPO = os.path.abspath(os.environ.get("VERIF_REPO", "/repo"))
SRC = os.path.join(REPO, "src")
DEPS = os.path.join(VERIF_DIR, ".deps")

os.environ.setdefault("MPLBACKEND", "Agg")
os.environ.setdefault("TQDM_DISABLE", "1")
os.environ["QCOCIRCUITS_VERIF"] = "1"


def bootstrap():
    """Insert the repository sources (and third-party harness deps) on sys.path."""
    if SRC in sys.path:
        sys.path.remove(SRC)
    sys.path.insert(0, SRC)
    if os.path.isdir(DEPS) and DEPS not in sys.path:
        sys.path.append(DEPS)
    sys.setrecursionlimit(max(sys.getrecursionlimit(), 12000))
    import qce_circuit  # noqa: F401  (fail early if the tree does not import)
    loaded_from = os.path.abspath(qce_circuit.__file__)
    if not loaded_from.startswith(SRC):
        raise RuntimeError(f"qce_circuit loaded from {loaded_from}, expected under {SRC}")
    return REPO
