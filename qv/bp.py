"""Build programs (BP): a JSON DSL executed only through the public API of the library, in lock step with the
reference model (``qv.model``).

    circuit := {"reps": n | {"reg": key}, "steps": [step, ...], "nq": declared register size (optional)}
    step    := {"sub": circuit, "rel": [TYPE, idx]?}   (with "rel": added through add_operation, relation kept)
             | {"k": Kind, "q": [qubits], "dur": null | number | {"reg": key} | {"glob": KEY},
                "chan": null | CHANNEL, "tag": str, "f": {extra int fields}, "rel": null | [TYPE, ref_index],
                "reg_of": ancestor depth whose acquisition registry a measurement uses (0 = own circuit)}
             | {"sub": circuit}
    program := {"circuit": circuit, "settings": {"glob": {...}, "reg": {...}, "reps": {...}}}

While a program is built the interpreter observes, immediately after every ``add``, the relation link the
library installed on the handle it returned, and checks it against the model (explicit: same reference object
and type; implicit: reference is one of the model's deepest-matching candidates, or none when there is none).
"""
import contextlib
import hashlib
import json
from typing import Any, Dict, List, Optional, Tuple

from qv import model as M
from qv.kinds import discover, SPEC


class Ctx:
    """Real registries + the settings they mirror."""

    def __init__(self, settings: Optional[Dict[str, Any]] = None):
        from qce_circuit.structure.registry_duration import DurationRegistry
        from qce_circuit.structure.registry_repetition import RepetitionRegistry
        settings = settings or {}
        self.S = M.Settings(settings.get("glob"), settings.get("reg"), settings.get("reps"))
        self.duration_registry = DurationRegistry()
        self.repetition_registry = RepetitionRegistry()
        for k, v in self.S.reg.items():
            self.duration_registry.set_registry_at(k, v)
        for k, v in self.S.reps.items():
            self.repetition_registry.set_registry_at(k, v)

    @contextlib.contextmanager
    def global_override(self):
        """Enter the library's own temporary override with the settings' global table."""
        from qce_circuit.structure.registry_duration import temporary_override_get_registry_at, GlobalRegistryKey
        table = {GlobalRegistryKey[k]: float(v) for k, v in self.S.glob.items()}
        with temporary_override_get_registry_at(table):
            yield


class Level:
    """One built (sub-)circuit: the real DeclarativeCircuit, the handles returned by add, the model nodes."""

    def __init__(self, bp: Dict[str, Any], circuit, path: Tuple[int, ...]):
        self.bp = bp
        self.circuit = circuit
        self.path = path
        self.handles: List[Any] = []
        self.last_entries: List[Any] = []
        self.links: Dict[int, Any] = {}
        self.children: List[Optional["Level"]] = []
        self.mnodes: List[M.MNode] = []


class Built:
    def __init__(self, program: Dict[str, Any], ctx: Ctx, top: Level):
        self.program = program
        self.ctx = ctx
        self.top = top
        self.link_violations: List[Dict[str, Any]] = []
        self.counters: Dict[str, int] = {}
        self.warnings: Dict[str, int] = {}

    def count(self, key: str, n: int = 1):
        self.counters[key] = self.counters.get(key, 0) + n


def _duration_strategy(dur: Any, ctx: Ctx):
    from qce_circuit.structure.registry_duration import (
        FixedDurationStrategy, RegistryDurationStrategy, GlobalDurationStrategy, GlobalRegistryKey)
    if isinstance(dur, dict):
        if "reg" in dur:
            return RegistryDurationStrategy(registry=ctx.duration_registry, registry_key=dur["reg"])
        if "glob" in dur:
            return GlobalDurationStrategy(GlobalRegistryKey[dur["glob"]])
        if "decouple" in dur:
            from qce_circuit.library.repetition_code.circuit_components import GlobalDecouplingWaitDurationStrategy
            return GlobalDecouplingWaitDurationStrategy()
        raise ValueError(dur)
    return FixedDurationStrategy(duration=float(dur))


def _repetition_strategy(reps: Any, ctx: Ctx):
    from qce_circuit.structure.registry_repetition import FixedRepetitionStrategy, RegistryRepetitionStrategy
    if isinstance(reps, dict):
        return RegistryRepetitionStrategy(registry=ctx.repetition_registry, registry_key=reps["reg"])
    return FixedRepetitionStrategy(repetitions=int(reps))


def make_op(step: Dict[str, Any], ctx: Ctx, stack: List[Level], relation=None):
    """Instantiate the real operation of a leaf step (relation passed to the constructor when it accepts one)."""
    from qce_circuit.structure.intrf_circuit_operation import QubitChannel
    kinds = discover()
    info = kinds[step["k"]]
    kw: Dict[str, Any] = {}
    q = step["q"]
    if info["arity"] == "n":
        kw["qubit_indices"] = list(q)
    elif info["arity"] == 2:
        kw["control_qubit_index"], kw["target_qubit_index"] = q[0], q[1]
    else:
        kw["qubit_index"] = q[0]
    if step.get("dur") is not None and info["dur_cfg"]:
        kw["duration_strategy"] = _duration_strategy(step["dur"], ctx)
    if step.get("chan") is not None and info["chan_cfg"]:
        kw["qubit_channel"] = QubitChannel[step["chan"]]
    if info["measure"]:
        depth = int(step.get("reg_of", 0) or 0)
        depth = min(depth, len(stack) - 1)
        owner = stack[len(stack) - 1 - depth]
        kw["acquisition_strategy"] = owner.circuit.get_acquisition_strategy()
        kw["acquisition_tag"] = step.get("tag", "") or ""
    for name, value in (step.get("f") or {}).items():
        if name in info["extra"]:
            kw[name] = value
    if relation is not None and info["relation_init"]:
        kw["relation"] = relation
    op = info["cls"](**kw)
    if relation is not None and not info["relation_init"]:
        op.relation_link = relation
    return op


def mnode_of(step: Dict[str, Any]) -> M.MNode:
    info = discover()[step["k"]]
    dur = step.get("dur") if info["dur_cfg"] else None
    chan = step.get("chan") if info["chan_cfg"] else None
    tag = (step.get("tag", "") or "") if info["measure"] else ""
    fields = dict(field_defaults(step["k"]))
    fields.update({k: v for k, v in (step.get("f") or {}).items() if k in info["extra"] and v is not None})
    return M.MNode(step["k"], step["q"], chan, dur, tag, fields)


_FIELD_DEFAULTS: Dict[str, Dict[str, Any]] = {}


def field_defaults(kind: str) -> Dict[str, Any]:
    """Documented defaults of the extra constructor fields of a kind (non-None ones only)."""
    import dataclasses
    hit = _FIELD_DEFAULTS.get(kind)
    if hit is None:
        info = discover()[kind]
        hit = {}
        for f in dataclasses.fields(info["cls"]):
            if f.name in info["extra"] and f.default is not dataclasses.MISSING and f.default is not None:
                hit[f.name] = f.default
        _FIELD_DEFAULTS[kind] = hit
    return hit


def _ref_index(level: Level, ref) -> Optional[int]:
    for j, h in enumerate(level.handles):
        if h is ref:
            return j
    return None


def _observe_link(built: Built, level: Level, handle, mnode: M.MNode, step: Dict[str, Any]):
    """Check the link installed by add against the model and attach the model node accordingly."""
    from qce_circuit.structure.intrf_circuit_operation import RelationLink
    link = handle.relation_link
    rel = step.get("rel")
    where = {"path": list(level.path), "idx": len(level.mnodes), "kind": step.get("k", "sub")}
    if not isinstance(link, RelationLink):
        built.link_violations.append({**where, "what": f"link type {type(link).__name__} after add"})
        M.attach(level.mnodes, mnode, None)
        return
    ref = link._reference_node
    rtype = link._relation_type.name
    j = _ref_index(level, ref) if ref is not None else None
    if ref is not None and j is None:
        built.link_violations.append({**where, "what": "installed reference is not a handle of this circuit"})
        M.attach(level.mnodes, mnode, None)
        return
    if rel is not None:
        built.count("explicit_links")
        built.count("explicit_" + rel[0])
        want_type, want_idx = rel[0], rel[1]
        if j != want_idx or rtype != want_type:
            built.link_violations.append({**where, "what": f"explicit relation [{want_type},{want_idx}] installed as [{rtype},{j}]"})
        M.attach(level.mnodes, mnode, level.mnodes[want_idx], want_type, explicit=True)
        return
    built.count("implicit_links")
    cands = M.implicit_candidates(level.mnodes, mnode)
    cand_idx = [c.idx for c in cands]
    if len(cands) > 1:
        built.count("implicit_ties")
    if j is None:
        if cands:
            built.link_violations.append({**where, "what": f"no relation installed, model candidates {cand_idx}"})
        M.attach(level.mnodes, mnode, None)
        return
    if rtype != M.FB:
        built.link_violations.append({**where, "what": f"implicit relation installed with type {rtype}"})
    if j not in cand_idx:
        built.link_violations.append({**where, "what": f"implicit predecessor {j} not among deepest matching candidates {cand_idx}"})
        M.attach(level.mnodes, mnode, level.mnodes[j], M.FB)
        return
    M.attach(level.mnodes, mnode, level.mnodes[j], M.FB)


def _reference(built: Built, level: Level, idx: int):
    """The object a relation to step ``idx`` is built from: the handle returned by add(), or - for every other reference to the
    step added last - what get_last_entry() returned right after that add (the two are promised to be the same object)."""
    if idx == len(level.handles) - 1 and (idx + len(level.path)) % 2 == 0 and idx < len(level.last_entries) \
            and not isinstance(level.last_entries[idx], Exception):
        built.count("relations_built_from_last_entry")
        return level.last_entries[idx]
    return level.handles[idx]


def _add_step(built: Built, level: Level, stack: List[Level], i: int, step: Dict[str, Any]):
    """Execute one step on ``level`` (``stack`` ends with ``level``) and observe the installed link."""
    from qce_circuit.structure.intrf_circuit_operation import RelationLink, RelationType
    ctx = built.ctx
    circuit = level.circuit
    path = level.path
    if "sub" in step and step.get("rel") is not None:
        # a sub-circuit with an explicit relation: built with that relation and added as an operation (add_operation keeps the
        # object and its relation; add / add_sub_circuit copy it and re-point the relation through an empty lookup)
        rel = step["rel"]
        relation = RelationLink(_reference(built, level, rel[1]), RelationType[rel[0]])
        child = _build_level(step["sub"], built, stack, path + (i,), relation=relation)
        handle = circuit.add_operation(child.circuit.circuit_structure)
        mnode = M.MNode(is_block=True, sub=child.mnodes, reps=step["sub"].get("reps", 1), kind="<block>")
        level.children.append(child)
        built.count("blocks")
        built.count("blocks_with_explicit_relation")
        built.count("blocks_explicit_" + rel[0])
    elif "sub" in step:
        child = _build_level(step["sub"], built, stack, path + (i,))
        # add() takes the declarative circuit or its bare structure: both are nested as a COPY
        handle = circuit.add(child.circuit.circuit_structure if step.get("as_structure") else child.circuit)
        if step.get("as_structure"):
            built.count("blocks_added_as_structure")
        mnode = M.MNode(is_block=True, sub=child.mnodes, reps=step["sub"].get("reps", 1), kind="<block>")
        level.children.append(child)
        built.count("blocks")
        if handle is child.circuit.circuit_structure:
            built.link_violations.append({"path": list(path), "idx": i, "kind": "sub", "what": "add returned the original sub-circuit, not a copy"})
    else:
        rel = step.get("rel")
        relation = None
        if rel is not None and step.get("share_link_of") is not None and level.links.get(step["share_link_of"]) is not None:
            # the SAME RelationLink instance as an earlier step (links are immutable value objects and may be shared between operations)
            relation = level.links[step["share_link_of"]]
            built.count("operations_sharing_a_link_instance")
        elif rel is not None:
            relation = RelationLink(_reference(built, level, rel[1]), RelationType[rel[0]])
        level.links[i] = relation
        op = make_op(step, ctx, stack, relation)
        handle = circuit.add(op)
        if handle is not op:
            built.link_violations.append({"path": list(path), "idx": i, "kind": step["k"], "what": "add did not return the added operation"})
        mnode = mnode_of(step)
        level.children.append(None)
        built.count("leaves")
        built.count("kind_" + step["k"])
    try:
        last = circuit.get_last_entry()
    except Exception as exc:  # pragma: no cover
        last = exc
    if last is not handle:
        built.link_violations.append({"path": list(path), "idx": i, "kind": step.get("k", "sub"), "what": "get_last_entry() is not the handle returned by the last add"})
    _observe_link(built, level, handle, mnode, step)
    level.handles.append(handle)
    level.last_entries.append(last)
    return handle


def _build_level(bp: Dict[str, Any], built: Built, stack: List[Level], path: Tuple[int, ...], relation=None) -> Level:
    from qce_circuit.language.declarative_circuit import DeclarativeCircuit
    kwargs = {"nr_qubits": int(bp["nq"])} if bp.get("nq") else {}      # declared register size: informative only, nothing enforces it
    if relation is not None:
        kwargs["relation"] = relation
    circuit = DeclarativeCircuit(repetition_strategy=_repetition_strategy(bp.get("reps", 1), built.ctx), **kwargs)
    level = Level(bp, circuit, path)
    stack = stack + [level]
    for i, step in enumerate(bp["steps"]):
        _add_step(built, level, stack, i, step)
    return level


def start(program: Dict[str, Any], ctx: Optional[Ctx] = None) -> Built:
    """Begin an incremental build: an empty top-level circuit; steps are added with :func:`add_step`."""
    ctx = ctx or Ctx(program.get("settings"))
    built = Built(program, ctx, None)  # type: ignore
    head = {k: v for k, v in program["circuit"].items() if k != "steps"}
    head.setdefault("reps", 1)
    built.top = _build_level(dict(head, steps=[]), built, [], ())
    built.top.bp = dict(head, steps=[])
    return built


def add_step(built: Built, step: Dict[str, Any]):
    level = built.top
    i = len(level.handles)
    level.bp["steps"].append(step)
    return _add_step(built, level, [level], i, step)


def build(program: Dict[str, Any], ctx: Optional[Ctx] = None) -> Built:
    """Execute a program through the public API.  The caller decides whether a global override is active."""
    ctx = ctx or Ctx(program.get("settings"))
    built = Built(program, ctx, None)  # type: ignore
    built.top = _build_level(program["circuit"], built, [], ())
    return built


def phash(obj: Any) -> str:
    return hashlib.sha1(json.dumps(obj, sort_keys=True, default=str).encode()).hexdigest()[:16]


# ---- program statistics (for evidence) --------------------------------------------------------------------

def stats(circ: Dict[str, Any], out: Optional[Dict[str, int]] = None, depth: int = 0) -> Dict[str, int]:
    if out is None:
        out = {"leaves": 0, "blocks": 0, "depth": 0, "explicit": 0, "joined": 0, "max_reps": 1, "reps_product": 1,
               "zero_ref": 0, "measures": 0}
    out["depth"] = max(out["depth"], depth)
    for st in circ["steps"]:
        if "sub" in st:
            out["blocks"] += 1
            r = st["sub"].get("reps", 1)
            r = r if isinstance(r, int) else 2
            out["max_reps"] = max(out["max_reps"], r)
            stats(st["sub"], out, depth + 1)
        else:
            out["leaves"] += 1
            if st["k"] == "DispersiveMeasure":
                out["measures"] += 1
            if st.get("rel"):
                out["explicit"] += 1
                if st["rel"][0] != "FOLLOWED_BY":
                    out["joined"] += 1
    return out
