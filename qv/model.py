"""Reference model: an independent scheduler over build programs (specification side of the oracles).

Shares no code with the library.  Works on ``MNode`` trees that the BP interpreter (``qv.bp``) creates while it
drives the public API; the model never looks at library objects.

Semantics (from the property statements):
* channel match  m(a,b) := a.qubit == b.qubit and (a.chan == b.chan or ALL in (a.chan, b.chan));
* an operation without relation is placed FOLLOWED_BY *an* earlier operation of the same level of maximal
  relation depth among those sharing a channel (the model reports the candidate set; the monitor checks that
  the library's choice is a member and the model continues with that choice);
* start by the three relation equations, end = start + duration, no relation -> starts with its level;
* a block starts per its own relation, its first operations start with it, its duration is the span
  (max end - min start) of everything it contains;
* unrolling n repetitions: n copies, the first operations of copy k+1 FOLLOWED_BY the latest-ending relation
  leaf of everything before it (same level).
"""
import math
from typing import Any, Dict, Iterable, List, Optional, Sequence, Set, Tuple

from qv.kinds import SPEC, DEFAULT_GLOBAL

FB, JS, JE = "FOLLOWED_BY", "JOINED_START", "JOINED_END"
RTYPES = (FB, JS, JE)


class Settings:
    """Duration / repetition settings in force (global table, duration registry, repetition registry)."""

    def __init__(self, glob: Optional[Dict[str, float]] = None, reg: Optional[Dict[str, float]] = None,
                 reps: Optional[Dict[str, int]] = None):
        self.glob = dict(DEFAULT_GLOBAL)
        if glob:
            self.glob.update(glob)
        self.reg = dict(reg or {})
        self.reps = dict(reps or {})

    def copy(self) -> "Settings":
        return Settings(self.glob, self.reg, self.reps)

    def to_json(self):
        return {"glob": self.glob, "reg": self.reg, "reps": self.reps}


class MNode:
    """A model node: leaf operation or block (sub-circuit)."""
    __slots__ = ("idx", "kind", "qubits", "chan", "dur", "tag", "fields", "is_block", "sub", "reps",
                 "parent", "rtype", "multi", "attach", "depth", "explicit", "nchildren", "chans_override", "uid", "origin", "pre_dur")

    def __init__(self, kind: str = "", qubits: Sequence[int] = (), chan: Optional[str] = None, dur: Any = None,
                 tag: str = "", fields: Optional[Dict[str, Any]] = None, is_block: bool = False,
                 sub: Optional[List["MNode"]] = None, reps: Any = 1):
        self.idx = -1
        self.kind = kind
        self.qubits = tuple(qubits)
        self.chan = chan
        self.dur = dur
        self.tag = tag
        self.fields = dict(fields or {})
        self.is_block = is_block
        self.sub = sub if sub is not None else []
        self.reps = reps
        self.parent: Optional[MNode] = None
        self.rtype: str = FB
        self.multi: Optional[List[MNode]] = None   # unrolled copies: FOLLOWED_BY latest of these
        self.attach: Optional[MNode] = None        # unrolled copies: the leaf that was latest when the copy was chained
        self.depth = 1
        self.explicit = False
        self.nchildren = 0
        self.chans_override: Optional[Set[Tuple[int, str]]] = None
        self.uid = -1
        self.origin: Optional[MNode] = None
        self.pre_dur: Optional[float] = None      # duration of a block before its nested repetitions were unrolled


# ---- channels ------------------------------------------------------------------------------------------

def channels(node: MNode) -> Set[Tuple[int, str]]:
    if node.chans_override is not None:
        return node.chans_override
    if node.is_block:
        out: Set[Tuple[int, str]] = set()
        for n in node.sub:
            out |= channels(n)
        return out
    spec = SPEC.get(node.kind)
    if spec is None:
        raise KeyError(node.kind)
    chans = spec["chan"]
    if chans == "cfg":
        chans = (node.chan or "ALL",)
    return {(q, c) for q in node.qubits for c in chans}


def match(a: Set[Tuple[int, str]], b: Set[Tuple[int, str]]) -> bool:
    for (qa, ca) in a:
        for (qb, cb) in b:
            if qa == qb and (ca == cb or ca == "ALL" or cb == "ALL"):
                return True
    return False


def implicit_candidates(level: List[MNode], new: MNode) -> List[MNode]:
    """Earlier nodes of the level of maximal relation depth among those sharing a channel with ``new``."""
    cn = channels(new)
    best: List[MNode] = []
    best_depth = -1
    for n in level:
        if match(channels(n), cn):
            if n.depth > best_depth:
                best, best_depth = [n], n.depth
            elif n.depth == best_depth:
                best.append(n)
    return best


def attach(level: List[MNode], new: MNode, parent: Optional[MNode], rtype: str = FB, explicit: bool = False):
    new.parent = parent
    new.rtype = rtype
    new.explicit = explicit
    new.depth = 1 if parent is None else parent.depth + 1
    new.idx = len(level)
    if parent is not None:
        parent.nchildren += 1
    level.append(new)


# ---- durations and times ------------------------------------------------------------------------------

def leaf_duration(node: MNode, S: Settings) -> float:
    d = node.dur
    spec = SPEC.get(node.kind)
    if d is None:
        sd = spec["dur"] if spec else "cfg"
        if sd == "cfg":
            return 0.0
        if sd[0] == "global":
            return float(S.glob[sd[1]])
        return float(sd[1])
    if isinstance(d, dict):
        if "reg" in d:
            return float(S.reg.get(d["reg"], 0.0))
        if "glob" in d:
            return float(S.glob[d["glob"]])
        if "decouple" in d:
            return max(0.0, 0.5 * (S.glob["READOUT"] - S.glob["MICROWAVE"]))
        raise ValueError(d)
    return float(d)


def reps_of(node: MNode, S: Settings) -> int:
    r = node.reps
    if isinstance(r, dict):
        return int(S.reps.get(r["reg"], 1))
    return int(r)


def level_times(level: List[MNode], S: Settings, offset: float = 0.0,
                out: Optional[Dict[int, Tuple[float, float]]] = None, pre: bool = False) -> Dict[int, Tuple[float, float]]:
    """Start/end of every node of one level (keyed by id(node)); heads start at ``offset``.
    ``pre``: blocks take the duration they had before their nested repetitions were unrolled."""
    if out is None:
        out = {}
    for n in level:
        d = n.pre_dur if (pre and n.is_block and n.pre_dur is not None) else duration(n, S)
        if n.multi is not None:
            if n.multi:
                s = max(out[id(m)][1] for m in n.multi)
            else:
                s = offset
        elif n.parent is None:
            s = offset
        else:
            ps, pe = out[id(n.parent)]
            if n.rtype == FB:
                s = pe
            elif n.rtype == JS:
                s = ps
            elif n.rtype == JE:
                s = pe - d
            else:
                raise ValueError(n.rtype)
        out[id(n)] = (s, s + d)
    return out


def span(level: List[MNode], S: Settings) -> float:
    recs = leaf_records(level, S, 0.0)
    if not recs:
        return 0.0
    return max(r[2] for r in recs) - min(r[1] for r in recs)


def duration(node: MNode, S: Settings) -> float:
    if not node.is_block:
        return leaf_duration(node, S)
    return span(node.sub, S)


def leaf_records(level: List[MNode], S: Settings, offset: float = 0.0) -> List[Tuple[MNode, float, float]]:
    """(leaf node, start, end) for every leaf contained in the level, nested content included."""
    times = level_times(level, S, offset)
    out: List[Tuple[MNode, float, float]] = []
    for n in level:
        s, e = times[id(n)]
        if n.is_block:
            out.extend(leaf_records(n.sub, S, s))
        else:
            out.append((n, s, e))
    return out


def block_records(level: List[MNode], S: Settings, offset: float = 0.0, path: Tuple[int, ...] = ()):
    """(path, block node, start, end, min content start, max content end) for every block, recursively."""
    times = level_times(level, S, offset)
    out = []
    for n in level:
        if n.is_block:
            s, e = times[id(n)]
            recs = leaf_records(n.sub, S, s)
            lo = min((r[1] for r in recs), default=s)
            hi = max((r[2] for r in recs), default=s)
            out.append((path + (n.idx,), n, s, e, lo, hi))
            out.extend(block_records(n.sub, S, s, path + (n.idx,)))
    return out


def sig(node: MNode, S: Settings) -> Tuple:
    """Signature of a leaf: kind, qubits, channels, duration, tag, extra fields."""
    return (node.kind, node.qubits, tuple(sorted(channels(node))), round(leaf_duration(node, S), 9), node.tag,
            tuple(sorted(node.fields.items())))


# ---- unrolling ---------------------------------------------------------------------------------------

def _copy_level(level: List[MNode]) -> List[MNode]:
    mapping: Dict[int, MNode] = {}
    out: List[MNode] = []
    for n in level:
        c = MNode(n.kind, n.qubits, n.chan, n.dur, n.tag, n.fields, n.is_block,
                  _copy_level(n.sub) if n.is_block else None, n.reps)
        c.chans_override = n.chans_override
        c.origin = n.origin or n
        c.pre_dur = n.pre_dur
        c.rtype, c.explicit, c.depth = n.rtype, n.explicit, n.depth
        c.parent = mapping[id(n.parent)] if n.parent is not None else None
        if n.multi is not None:
            c.multi = [mapping[id(m)] for m in n.multi]
            c.attach = mapping[id(n.attach)] if n.attach is not None else None
        c.idx = len(out)
        mapping[id(n)] = c
        out.append(c)
    _recount_children(out)
    return out


def _recount_children(level: List[MNode]):
    for n in level:
        n.nchildren = 0
    for n in level:
        if n.multi is not None:
            if n.attach is not None:
                n.attach.nchildren += 1
        elif n.parent is not None:
            n.parent.nchildren += 1


def unroll(level: List[MNode], reps: int, S: Settings, stats: Optional[Dict[str, int]] = None) -> List[MNode]:
    """Model of apply-modifiers: level with ``reps`` copies chained, nested blocks unrolled (their reps -> 1)."""
    base = _copy_level(level)
    for n in base:
        if n.is_block:
            n.pre_dur = span(n.sub, S)
            n.sub = unroll(n.sub, reps_of(n, S), S, stats)
            n.reps = 1
    out: List[MNode] = list(base)
    for i, n in enumerate(out):
        n.idx = i
    for _k in range(1, max(1, reps)):
        cp = _copy_level(base)
        if out:
            times = level_times(out, S, 0.0)
            leaves = [n for n in out if n.nchildren == 0]
            latest = max(leaves, key=lambda n: times[id(n)][1])
            if stats is not None and len(leaves) > 1:
                # the library picks the attach leaf with the durations nested blocks have BEFORE they are unrolled
                pre_times = level_times(out, S, 0.0, pre=True)
                top_post = max(times[id(n)][1] for n in leaves)
                top_pre = max(pre_times[id(n)][1] for n in leaves)
                post_set = {id(n) for n in leaves if abs(times[id(n)][1] - top_post) <= 1e-9}
                pre_set = {id(n) for n in leaves if abs(pre_times[id(n)][1] - top_pre) <= 1e-9}
                if not (post_set & pre_set):
                    stats["unroll_flip"] = stats.get("unroll_flip", 0) + 1
        else:
            leaves, latest = [], None
        heads = [n for n in cp if n.parent is None and n.multi is None]
        for h in heads:
            h.multi = list(leaves)
            h.attach = latest
            if latest is not None:
                latest.nchildren += 1
        head_start = times[id(latest)][1] if latest is not None else 0.0
        for n in cp:
            n.idx = len(out)
            out.append(n)
        if stats is not None and cp:
            t2 = level_times(out, S, 0.0)
            cp_leaf_end = max((t2[id(n)][1] for n in cp if n.nchildren == 0), default=head_start)
            if cp_leaf_end < head_start - 1e-12:
                stats["unroll_degenerate"] = stats.get("unroll_degenerate", 0) + 1
    return out


def count_kinds(level: List[MNode], S: Settings, mult: int = 1, out: Optional[Dict[str, int]] = None) -> Dict[str, int]:
    """Expected per-kind multiplicities after unrolling: content x product of enclosing counts."""
    if out is None:
        out = {}
    for n in level:
        if n.is_block:
            count_kinds(n.sub, S, mult * reps_of(n, S), out)
        else:
            out[n.kind] = out.get(n.kind, 0) + mult
    return out


def max_depth(level: List[MNode]) -> int:
    d = 0
    for n in level:
        if n.is_block:
            d = max(d, 1 + max_depth(n.sub))
    return d
