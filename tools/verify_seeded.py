#!/venv/bin/python
"""Confirm an independently seeded change and record which checks catch it.

usage: tools/verify_seeded.py <PROP> <source-dir-with-patch.diff/demo.py/notes.md> [--name NAME] [--checks C01,C03,...]

Steps (all in a fresh scratch worktree of /repo HEAD, removed afterwards):
  1. demo.py on the unchanged tree  -> must exit 0
  2. apply patch.diff, run the repository's test suite -> must pass (61)
  3. demo.py on the changed tree   -> must exit non-zero
  4. run the named checks (default: the property's own) with VERIF_REPO=<scratch>, quick tier -> exit 1 expected
The change is kept under /verif/seeded/<NAME>/ (patch.diff, demo.py, notes.md, meta.json) only if 1-3 hold.
"""
import argparse
import json
import os
import shutil
import subprocess
import sys
import time

ROOT = os.path.dirname(os.path.dirname(os.path.abspath(__file__)))
REPO = "/repo"


def sh(cmd, **kw):
    return subprocess.run(cmd, shell=True, capture_output=True, text=True, **kw)


def main():
    ap = argparse.ArgumentParser()
    ap.add_argument("prop")
    ap.add_argument("src")
    ap.add_argument("--name", default=None)
    ap.add_argument("--checks", default=None)
    ap.add_argument("--tier", default="quick")
    args = ap.parse_args()
    prop = args.prop.upper()
    name = args.name or prop
    checks = (args.checks.split(",") if args.checks else [prop])
    wt = f"/tmp/sv_{name}"
    sh(f"git -C {REPO} worktree remove --force {wt}")
    shutil.rmtree(wt, ignore_errors=True)
    sh(f"git -C {REPO} worktree add -f {wt} HEAD")
    meta = {"property": prop, "name": name, "repo_head": sh(f"git -C {REPO} log --format=%h -1").stdout.strip(), "ran": []}
    env = f"cd {wt} && PYTHONPATH={wt}/src MPLBACKEND=Agg TQDM_DISABLE=1"
    ok = True
    try:
        for fn in os.listdir(REPO):
            if fn.startswith("config_"):
                shutil.copy(os.path.join(REPO, fn), wt)
        demo = os.path.join(args.src, "demo.py")
        patch = os.path.join(args.src, "patch.diff")
        r1 = sh(f"{env} timeout 600 /venv/bin/python {demo}")
        meta["ran"].append({"step": "demo on unchanged tree", "exit": r1.returncode, "tail": (r1.stdout + r1.stderr).strip()[-200:]})
        if r1.returncode != 0:
            ok = False
        ra = sh(f"git -C {wt} apply {patch}")
        if ra.returncode != 0:
            meta["ran"].append({"step": "apply patch", "exit": ra.returncode, "tail": ra.stderr[-300:]})
            ok = False
        else:
            rt = sh(f"{env} /venv/bin/python -m pytest -q -p no:cacheprovider --timeout=900 2>&1 | tail -1")
            meta["ran"].append({"step": "test suite with the change", "result": rt.stdout.strip()[-150:]})
            if " passed" not in rt.stdout or "failed" in rt.stdout:
                ok = False
            r2 = sh(f"{env} timeout 600 /venv/bin/python {demo}")
            meta["ran"].append({"step": "demo on changed tree", "exit": r2.returncode, "tail": (r2.stdout + r2.stderr).strip()[-300:]})
            if r2.returncode == 0:
                ok = False
            meta["confirmed"] = ok
            meta["checks"] = {}
            if ok:
                for c in checks:
                    t0 = time.time()
                    rc = sh(f"cd {ROOT} && VERIF_REPO={wt} ./check {c} --tier {args.tier} --no-evidence")
                    sigs = sorted({ln.split('sig=')[1].split()[0] for ln in rc.stdout.splitlines() if ln.strip().startswith('sig=')})
                    meta["checks"][c] = {"exit": rc.returncode, "sigs": sigs[:8], "s": round(time.time() - t0, 1),
                                         "tail": rc.stdout.strip().splitlines()[-1][:200] if rc.stdout.strip() else ""}
                meta["caught_by"] = [c for c, v in meta["checks"].items() if v["exit"] == 1]
    finally:
        sh(f"git -C {REPO} worktree remove --force {wt}")
        shutil.rmtree(wt, ignore_errors=True)
    print(json.dumps(meta, indent=1))
    if meta.get("confirmed"):
        dst = os.path.join(ROOT, "seeded", name)
        os.makedirs(dst, exist_ok=True)
        for fn in ("patch.diff", "demo.py", "notes.md"):
            if os.path.exists(os.path.join(args.src, fn)):
                shutil.copy(os.path.join(args.src, fn), dst)
        notes = os.path.join(args.src, "notes.md")
        meta["needs_to_manifest"] = open(notes).read()[:1500] if os.path.exists(notes) else ""
        json.dump(meta, open(os.path.join(dst, "meta.json"), "w"), indent=1)
    return 0 if meta.get("confirmed") else 1


if __name__ == "__main__":
    sys.exit(main())
