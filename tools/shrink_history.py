#!/venv/bin/python
"""Shrink the history of a C03 replay file while a finding with the same signature persists."""
import json, sys, warnings, os
sys.path.insert(0, os.path.dirname(os.path.dirname(os.path.abspath(__file__))))
from qv import env; env.bootstrap()
from qv import memo_shadow; memo_shadow.install()
from qv.acc import Acc
from qv import shrink
from qv.props import c03
warnings.simplefilter('ignore')
body = json.load(open(sys.argv[1]))
want = sys.argv[2] if len(sys.argv) > 2 else body['sig']
hist = body['case']['history']
def fails(h):
    acc = Acc()
    try:
        c03.check_history(h, acc)
    except Exception:
        return False
    return any(k.startswith(want) for k in acc.finding_counts)
if not fails(hist):
    print('does not reproduce'); sys.exit(1)
small = shrink.shrink_history(hist, fails, budget=1500)
acc = Acc(); c03.check_history(small, acc)
print(json.dumps(small))
for f in acc.findings[:4]:
    print('  ', f['sig'], '|', f['what'], '|', json.dumps(f['detail'], default=str)[:700])
