#!/venv/bin/python
"""Self-validation: every repaired defect must be reported again if it returns.

For each `fixed` entry of known_findings.json: reverse-apply the fix commit on a scratch worktree of /repo HEAD, confirm the
repository's own tests still pass (they did before the fix), run the entry's check with VERIF_REPO=<scratch> and expect
exit 1 (VIOLATION) - a `fixed` entry suppresses nothing.  Results -> selftest/reverts.json.

usage: tools/revert_fixes.py [commit-prefix ...]
"""
import json
import os
import shutil
import subprocess
import sys
import time

ROOT = os.path.dirname(os.path.dirname(os.path.abspath(__file__)))
REPO = "/repo"


# reverts that are behaviourally neutral at the current head (analysed in DESIGN.md 7): reported as such, not as a miss
SUPERSEDED = {
    "129ec84": "superseded by 30ee3d6: the graph position of repeated copies no longer depends on which of equally late leaves "
               "MultiRelationLink.reference_node returns (its start time is the same for both); C01, C02, C06, C07, C10, C11 silent",
}


def sh(cmd, **kw):
    return subprocess.run(cmd, shell=True, capture_output=True, text=True, **kw)


def main():
    wanted = sys.argv[1:]
    known = json.load(open(os.path.join(ROOT, "known_findings.json")))["findings"]
    by_commit = {}
    for f in known:
        if f.get("status") == "fixed" and f.get("commit"):
            by_commit.setdefault(f["commit"], []).append(f)
    out_path = os.path.join(ROOT, "selftest", "reverts.json")
    results = json.load(open(out_path)) if os.path.exists(out_path) else {}
    for commit, entries in by_commit.items():
        if wanted and not any(commit.startswith(w) for w in wanted):
            continue
        props = sorted({e["property"] for e in entries})
        wt = f"/tmp/rv_{commit}"
        sh(f"git -C {REPO} worktree remove --force {wt}")
        shutil.rmtree(wt, ignore_errors=True)
        sh(f"git -C {REPO} worktree add -f {wt} HEAD")
        entry = {"commit": commit, "subject": sh(f"git -C {REPO} log --format=%s -1 {commit}").stdout.strip(), "props": props,
                 "repo_head": sh(f"git -C {REPO} log --format=%h -1").stdout.strip()}
        try:
            for fn in os.listdir(REPO):
                if fn.startswith("config_"):
                    shutil.copy(os.path.join(REPO, fn), wt)
            r = sh(f"cd {wt} && git show {commit} -- src | git apply -R --3way 2>&1 || (git checkout -q -- . ; git show {commit} -- src | git apply -R 2>&1)")
            dirty = sh(f"git -C {wt} status --porcelain -- src").stdout.strip()
            conflict = "<<<<<<<" in sh(f"cd {wt} && grep -rl '<<<<<<<' src || true").stdout or not dirty
            if conflict or (r.returncode != 0 and not dirty):
                entry["status"] = "not-revertible: later commits build on it"
                entry["detail"] = (r.stdout + r.stderr).strip()[-300:]
            else:
                t = sh(f"cd {wt} && PYTHONPATH={wt}/src /venv/bin/python -m pytest -q -p no:cacheprovider --timeout=900 2>&1 | tail -1")
                entry["tests"] = t.stdout.strip()[-120:]
                entry["checks"] = {}
                caught = []
                if " passed" not in t.stdout or "failed" in t.stdout or "error" in t.stdout.lower():
                    props = []
                    entry["status"] = "not-revertible: mechanical revert does not give a working tree (later commits build on it)"
                for prop in props:
                    t0 = time.time()
                    c = sh(f"cd {ROOT} && VERIF_REPO={wt} ./check {prop} --tier quick --no-evidence")
                    sigs = sorted({ln.split('sig=')[1].split()[0] for ln in c.stdout.splitlines() if ln.strip().startswith('sig=')})
                    entry["checks"][prop] = {"exit": c.returncode, "sigs": sigs[:6], "s": round(time.time() - t0, 1)}
                    if c.returncode == 1:
                        caught.append(prop)
                entry["caught_by"] = caught
                if "status" not in entry:
                    entry["status"] = "reported again" if len(caught) == len(props) else ("partly reported" if caught else "MISSED")
        finally:
            sh(f"git -C {REPO} worktree remove --force {wt}")
            shutil.rmtree(wt, ignore_errors=True)
        if entry.get("status") == "MISSED" and commit in SUPERSEDED:
            entry["status"] = "neutral at this head"
            entry["note"] = SUPERSEDED[commit]
        print(json.dumps(entry), flush=True)
        results[commit] = entry
        json.dump(results, open(out_path, "w"), indent=1)
    print("reverts:", {k: v["status"] for k, v in results.items()})


if __name__ == "__main__":
    main()
