#!/venv/bin/python
"""Self-validation driver: apply each catalogued breaking change to a scratch worktree of /repo, confirm the repository's own
tests still pass, run the named checks against the scratch tree and expect a VIOLATION (exit 1).

usage: tools/selftest.py [name-substring ...]      results -> selftest/results.json
"""
import json
import os
import shutil
import subprocess
import sys
import time

ROOT = os.path.dirname(os.path.dirname(os.path.abspath(__file__)))
sys.path.insert(0, ROOT)
from selftest.mutations import MUTATIONS  # noqa: E402

REPO = "/repo"


def sh(cmd, **kw):
    return subprocess.run(cmd, shell=True, capture_output=True, text=True, **kw)


def main():
    wanted = sys.argv[1:]
    results = []
    out_path = os.path.join(ROOT, "selftest", "results.json")
    previous = {}
    if os.path.exists(out_path):
        previous = {r["name"]: r for r in json.load(open(out_path))}
    for m in MUTATIONS:
        if wanted and not any(w in m["name"] for w in wanted):
            if m["name"] in previous:
                results.append(previous[m["name"]])
            continue
        wt = f"/tmp/st_{m['name']}"
        sh(f"git -C {REPO} worktree remove --force {wt}")
        shutil.rmtree(wt, ignore_errors=True)
        r = sh(f"git -C {REPO} worktree add -f {wt} HEAD")
        entry = {"name": m["name"], "props": m["props"], "repo_head": sh(f"git -C {REPO} log --format=%h -1").stdout.strip()}
        try:
            for fn in os.listdir(REPO):
                if fn.startswith("config_"):
                    shutil.copy(os.path.join(REPO, fn), wt)
            ok = True
            for rel, old, new in m["subs"]:
                p = os.path.join(wt, rel)
                s = open(p).read()
                if s.count(old) != 1:
                    entry["status"] = f"invalid: pattern occurs {s.count(old)} times in {rel}"
                    ok = False
                    break
                open(p, "w").write(s.replace(old, new))
            if ok:
                t = sh(f"cd {wt} && PYTHONPATH={wt}/src /venv/bin/python -m pytest -q -p no:cacheprovider -x --timeout=900 2>&1 | tail -1")
                entry["tests"] = t.stdout.strip()[-120:]
                if " passed" not in t.stdout or "failed" in t.stdout or "error" in t.stdout.lower():
                    entry["status"] = "invalid: tests fail"
                else:
                    entry["checks"] = {}
                    caught = []
                    for prop in m["props"]:
                        t0 = time.time()
                        c = sh(f"cd {ROOT} && VERIF_REPO={wt} ./check {prop} --tier quick --no-evidence")
                        sigs = sorted({ln.split('sig=')[1].split()[0] for ln in c.stdout.splitlines() if ln.strip().startswith('sig=')})
                        entry["checks"][prop] = {"exit": c.returncode, "sigs": sigs[:6], "s": round(time.time() - t0, 1)}
                        if c.returncode == 1:
                            caught.append(prop)
                    entry["caught_by"] = caught
                    entry["status"] = "caught" if caught else "MISSED"
        finally:
            sh(f"git -C {REPO} worktree remove --force {wt}")
            shutil.rmtree(wt, ignore_errors=True)
        print(json.dumps(entry), flush=True)
        results.append(entry)
        json.dump(results, open(out_path, "w"), indent=1)
    n_caught = sum(1 for r in results if r.get("status") == "caught")
    n_missed = sum(1 for r in results if r.get("status") == "MISSED")
    n_invalid = sum(1 for r in results if str(r.get("status", "")).startswith("invalid"))
    print(f"selftest: {n_caught} caught, {n_missed} missed, {n_invalid} invalid of {len(results)}")


if __name__ == "__main__":
    main()
