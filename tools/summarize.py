#!/venv/bin/python
"""Print markdown tables of the self-validation results (selftest/results.json, seeded/*/meta.json)."""
import glob, json, os
ROOT = os.path.dirname(os.path.dirname(os.path.abspath(__file__)))
print("| Seeded change | Property | Breaks it by | Strengthening it triggered | Caught by (signatures) |")
print("|---|---|---|---|---|")
for d in sorted(x for x in glob.glob(os.path.join(ROOT, "seeded", "*")) if os.path.isdir(x)):
    m = json.load(open(os.path.join(d, "meta.json")))
    notes = m.get("needs_to_manifest", "").replace("\n", " ").replace("|", "/")
    caught = "; ".join(f"{c}: {', '.join(v['sigs'][:3])}" for c, v in m.get("checks", {}).items() if v["exit"] == 1) or "MISSED"
    print(f"| `{os.path.basename(d)}` | {m['property']} | {notes[:160]} | {m.get('strengthening', '-')} | {caught} |")
print()
res = json.load(open(os.path.join(ROOT, "selftest", "results.json")))
print("| Catalogue entry | Expected | Status | Signatures |")
print("|---|---|---|---|")
for r in res:
    sigs = "; ".join(f"{c}: {', '.join(v['sigs'][:2])}" for c, v in r.get("checks", {}).items() if v["exit"] == 1)
    print(f"| `{r['name']}` | {', '.join(r['props'])} | {r.get('status')} | {sigs} |")

rev = os.path.join(ROOT, "selftest", "reverts.json")
if os.path.exists(rev):
    print()
    print("| Fix commit reverted | Properties | Status | Signatures |")
    print("|---|---|---|---|")
    for c, r in json.load(open(rev)).items():
        sigs = "; ".join(f"{k}: {', '.join(v['sigs'][:2])}" for k, v in r.get("checks", {}).items() if v["exit"] == 1)
        print(f"| `{c}` {r['subject'][:70]} | {', '.join(r['props'])} | {r.get('note') or r.get('status')} | {sigs} |")
