#!/bin/sh
# usage: tools/sweep.sh <tier> <seed> [props...]   -- runs the checks, prints one summary line per property, never writes evidence
DIR="$(cd "$(dirname "$0")/.." && pwd)"; cd "$DIR"
TIER=$1; SEED=$2; shift 2
PROPS=${*:-C01 C02 C03 C04 C05 C06 C07 C08 C09 C10 C11 C12 C13 C14 C15 C16 C17 C18 C19}
for p in $PROPS; do
  OUT=$(VERIF_MARGINS=1 VERIF_SEED=$SEED ./check $p --tier $TIER --no-evidence 2>&1); RC=$?
  echo "$p seed=$SEED tier=$TIER exit=$RC | $(echo "$OUT" | grep -v '^KNOWN\|^\[OPENQL' | tail -1 | cut -c1-220)"
  echo "$OUT" | grep '^MARGIN' | cut -c1-200
  if [ $RC -ne 0 ]; then echo "$OUT" | grep -v '^KNOWN\|^\[OPENQL' | tail -8 | cut -c1-400; fi
done
