#!/venv/bin/python
"""Shrink the build program of a replay file while a finding with the same signature persists.
usage: tools/shrink_replay.py <replay.json> [sig-prefix]"""
import importlib, json, sys, warnings, os
sys.path.insert(0, os.path.dirname(os.path.dirname(os.path.abspath(__file__))))
from qv import env; env.bootstrap()
from qv import memo_shadow; memo_shadow.install()
from qv.acc import Acc
from qv import shrink
warnings.simplefilter('ignore')
body = json.load(open(sys.argv[1]))
mod = importlib.import_module('qv.props.' + body['property'].lower())
want = sys.argv[2] if len(sys.argv) > 2 else body['sig']
prog = body['case']['program']
def fails(p):
    acc = Acc()
    try:
        mod.check_program(p, acc)
    except Exception:
        return False
    return any(k.startswith(want) for k in acc.finding_counts)
if not fails(prog):
    print('does not reproduce'); sys.exit(1)
small = shrink.shrink(prog, fails, budget=1500)
acc = Acc(); mod.check_program(small, acc)
print(json.dumps(small))
for f in acc.findings[:4]:
    print('  ', f['sig'], '|', f['what'], '|', json.dumps(f['detail'], default=str)[:600])
